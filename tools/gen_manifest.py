#!/usr/bin/env python3
"""Regenerate /verif/MANIFEST.json from the table below (kept next to the code so it stays current)."""
import json, os
V = os.path.dirname(os.path.dirname(os.path.abspath(__file__)))
TECH = "deterministic simulation with fault injection (vsim: real code on real threads run one at a time under a seeded scheduler, simulated clock, scripted kernel; seeded search over plans x schedules x faults; minimised replay files)"
CLAIMED = {
 "C03": ("exploration", "Seeded search: 2-3 threads (each the sole user of its local queue, all sharing the shared queue) x bounded op sequences x seeded schedules that interleave inside st3's push/pop/steal; oracles: no item popped twice or invented, shared len() == items held at quiescence, drain returns exactly the rest. Plus single-thread histories checked against a container-level mirror.", "6 C03"),
 "C04": ("exploration", "Every push/pop call is charged the scheduling points of its own thread and must stay under a generous bound; a call still running when the run's point budget is exhausted is reported as stuck; panics inside a call are reported. Histories are biased to refill-after-steal.", "6 C04"),
 "C05": ("exploration", "Single-thread histories over one shared and 1-4 local queues with tied and extreme priorities; the shims log container-level inserts/removes, a FIFO mirror per container yields the resident set of the queue that supplied each popped item; the popped item must be the oldest of the smallest priority value resident there.", "6 C05"),
 "C06": ("exploration", "Same mirror: 61 consecutive pops on one local queue while the shared queue continuously holds work must include a shared item; a pop may report empty only if nothing is waiting anywhere.", "6 C06"),
 "C07": ("exploration", "Generated coroutine bodies and driver actions (resumes incl. refused ones, clock advances, syscall wake-ups, direct transition calls, panicking listeners) on one thread; recording listeners: every reported (old,new) must be an edge of the documented graph, chained, followed by exactly one matching callback; refused operations change nothing; finished coroutines never change or run code.", "6 C07"),
 "C08": ("exploration", "Typed coroutine<u64,u64,u64> with unique random payloads in both directions at 0-50 suspend points, return or panic (&'static str and String payloads) at the end, panicking listeners: k-th resume argument = k-th suspend result, k-th yield = k-th reported value, one Complete, Error carries the panic message, nothing unwinds into the caller.", "6 C08"),
 "C09": ("exploration", "Same runs as C07: each body records what it asked for in its latest yield (plain / delay / until / cancel / a yield made in a syscall state) and the resume's reported wake-up time and cancellation must be exactly that, whatever other coroutines on the thread asked for before.", "6 C09"),
 "C25": ("exploration", "Histories of put/get/get_mut/remove over several coroutines and keys with drop-counting values, executed by the coroutine bodies themselves and through the handles, each coroutine dropped at a generated point (never started / suspended mid-body / finished): map model for return values, privacy across coroutines, every value still stored is dropped exactly once with its coroutine.", "6 C25"),
 "C26": ("exploration", "Fresh process per run; 2-4 threads race on their first get_or_default / init_bean+get_bean of the same names, and on Scheduler::new (global queue bean), under seeded schedules with a scheduling point before every atomic and map operation: all addresses for one name are equal and equal to later lookups; work submitted through one concurrently created scheduler is reachable from the other.", "6 C26"),
 "C10": ("exploration", "Fresh process per run; generated coroutine programs with priorities on one scheduler, generated scheduling passes (budgets, clock advances), cancels of ready/suspended/finished/unknown ids between passes and from a second thread inside a pass, stall faults: every finished coroutine reported exactly once with its own value or panic message; no step before its requested wake-up; a pass with budget to spare resumes everything due at its start; a coroutine cancelled while not running never advances again; everyone else finishes.", "6 C10"),
 "C01": ("exploration", "Whole runtime per run (fresh process): 1-4 event-loop threads, 1-4 user threads submitting generated tasks with priorities under seeded schedules that interleave inside the queue operations, capacity/CPU knobs forcing overflow and stealing: per-task counter never exceeds 1 (online); two simulated seconds after the last submission every accepted, never cancelled task has run exactly once while the runtime keeps scheduling; every submit call returns; nothing is dropped when EventLoops::stop reports success.", "6 C01"),
 "C02": ("exploration", "Pool level (owner thread + user threads on one CoroutinePool) and runtime level (EventLoops, JoinHandle::join/timeout_join): a join returns the task's own value or panic message; returns within 100 ms (simulated) of max(call, task end); reports a timeout only if the task had not finished 100 ms before the deadline; untimed joins return. Multi-loop cross-pool result storage is a recorded known finding (KNOWN-FINDING lines).", "6 C02, 8"),
 "C11": ("exploration", "Pool and runtime level: running size never above max; with min 0 it returns to 0 within keep-alive + 1 s after all work is done or cancelled; stop(30 s) returns Ok within 1 s of simulated time and leaves 0 workers, for every min/max/keep-alive, task program and cancel timing. Worker migration between event loops (multi-loop) is a recorded known finding.", "6 C11, 8"),
 "C12": ("exploration", "Interleavings of submit / schedule pass / wait / cancel / stop from 2-4 threads on one pool, and submit / join / EventLoops::stop at runtime level: observed states form a prefix of Running, Stopping, Stopped; submits that begin after stop was observed are refused; every accepted task ran or was cancelled when stop reports success; waiters return by their deadline, untimed waiters on tasks that never run are released with an error.", "6 C12"),
 "C13": ("exploration", "Cancels before submission, while queued (only counted when certainly still queued), running or suspended, with late signal delivery: a task cancelled before it starts never runs and its untimed waiter returns; every other task runs exactly once to its own result; nothing runs twice; the process survives.", "6 C13"),
}
NOTE = "Trusted: the vsim engine and shims (sequentially consistent interleavings at shim operations only; no weak-memory effects, no data races inside one uninstrumented operation), crossbeam Injector/SkipMap treated as linearizable, the textual std->vstd rewrite of the generated copy. Sampling, not enumeration."
props = [json.loads(l) for l in open(os.path.join(V, "properties.jsonl"))]
NA_REASON = {}
m = {
 "version": 1,
 "setup_cmd": "cd /verif && ./check build",
 "hooks": {
  "guard": "acl_dev_open_coroutine_verif",
  "enable": "no hook commits in /repo: ./check regenerates /verif/build/simcore (a copy of /repo/core with std::{sync,thread,time,collections} -> vstd and dependencies substituted by shim crates, tools/gen_simcore.py) from the working tree and builds the harness against it",
  "baseline_off_cmd": "cd /repo && cargo nextest run --workspace --no-fail-fast --tool-config-file pb:/w/lib/nextest.toml --profile pb --test-threads 8 --offline",
  "source_commits": [],
  "add_only": True,
 },
 "engines": [{"name": "vsim", "path": "sim/", "serves_properties": sorted(CLAIMED), "kind_free_text": "deterministic simulator: token-passing over real OS threads, seeded strategies (sticky-random, PCT-style, round-robin), discrete-event clock, signal queueing, fork-per-run workers, delta-debugging minimiser, strict schedule replay"}],
 "checks": [],
 "not_applicable": [],
 "notes": "exit codes: 0 held / 1 VIOLATION printed / 2 harness error. VERIF_SEED and VERIF_TIER are honoured. Genuine defects found so far were repaired in /repo as 'fix:' commits and are listed in known_findings.json.",
}
for p in props:
    i = p["id"]
    if i in CLAIMED:
        lvl, text, ref = CLAIMED[i]
        m["checks"].append({
            "property_id": i,
            "quick_cmd": f"./check quick {i}",
            "thorough_cmd": f"./check thorough {i}",
            "evidence_file": f"/verif/evidence/{i}.json",
            "replay_cmd_template": "./check replay {path}",
            "engine": "vsim",
            "level_claimed": {"category": lvl, "text": text, "design_ref": f"DESIGN.md section {ref}"},
            "level_note": NOTE,
            "technique": TECH,
        })
    else:
        m["not_applicable"].append({"property_id": i, "reason": NA_REASON.get(i, "check under construction in this round; not yet claimed")})
json.dump(m, open(os.path.join(V, "MANIFEST.json"), "w"), indent=1)
print("claimed", len(m["checks"]), "not claimed", len(m["not_applicable"]))
