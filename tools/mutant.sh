#!/bin/bash
# tools/mutant.sh <PROP> <sed-expr> <file-relative-to-repo>   -- sensitivity check on a scratch copy
# Copies /repo (without target/) to /tmp/vmut, applies the sed expression to the file, runs the
# quick check against it (VERIF_REPO), then removes the copy and regenerates the real simcore.
set -u
prop="$1"; expr="$2"; file="$3"
rm -rf /tmp/vmut && mkdir -p /tmp/vmut && rsync -a --exclude target --exclude .git /repo/ /tmp/vmut/
before=$(md5sum /tmp/vmut/$file | cut -d' ' -f1)
sed -i -E "$expr" /tmp/vmut/$file
after=$(md5sum /tmp/vmut/$file | cut -d' ' -f1)
if [ "$before" = "$after" ]; then echo "MUTANT DID NOT APPLY"; rm -rf /tmp/vmut; exit 3; fi
diff <(cat /repo/$file) /tmp/vmut/$file | head -20
VERIF_REPO=/tmp/vmut /verif/check quick "$prop" 2>&1 | grep -v "^simcore" | tail -6
rc=${PIPESTATUS[0]}
rm -rf /tmp/vmut /verif/replays/$prop
python3 /verif/tools/gen_simcore.py >/dev/null
echo "mutant exit=$rc"
