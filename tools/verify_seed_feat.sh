#!/bin/bash
# verify_seed_feat.sh <ID> <feature>: like verify_seed2 but the demo runs with a cargo feature
id=$1; feat=$2; d=/tmp/seed_$id; cd $d || exit 1
export CARGO_TARGET_DIR=$d/target
head=$(git -C /repo rev-parse HEAD)
git checkout -q -- . 2>/dev/null; git clean -fdq -e out -e target 2>/dev/null
git checkout -q --detach $head || { echo "checkout failed"; exit 1; }
git apply --3way out/patch.diff 2>/tmp/apply_$id.log || { echo "PATCH DOES NOT APPLY at $head"; head -5 /tmp/apply_$id.log; exit 1; }
git reset -q
echo "== $id applies at $head: $(git diff --stat | tail -1)"
NT="--tool-config-file pb:/w/lib/nextest.toml --profile pb"
echo "== suite with change"; timeout 1500 cargo nextest run --workspace --no-fail-fast $NT --test-threads 8 --offline 2>&1 | grep -a -E "Summary|FAIL |TIMEOUT|error" | tail -4
cp out/demo.rs core/tests/seed_demo_$id.rs
echo "== demo with change"; timeout 1500 cargo nextest run -p open-coroutine-core --features $feat --test seed_demo_$id --no-fail-fast $NT --offline 2>&1 | grep -a -E "Summary|FAIL |PASS |TIMEOUT|error" | tail -6
git diff > /tmp/cur_$id.diff; git apply -R /tmp/cur_$id.diff
echo "== demo without change"; timeout 1500 cargo nextest run -p open-coroutine-core --features $feat --test seed_demo_$id --no-fail-fast $NT --offline 2>&1 | grep -a -E "Summary|FAIL |PASS |TIMEOUT|error" | tail -6
rm -f core/tests/seed_demo_$id.rs
git apply /tmp/cur_$id.diff
cp /tmp/cur_$id.diff out/patch_at_head.diff
