#!/bin/bash
# tools/seedcheck2.sh <SEED-DIR> <PROP> [quick|thorough]: apply /verif/seeded/<SEED-DIR>/patch.diff (second-round change, e.g. C02b) to /repo,
# run the check of <PROP>, revert (/repo must be clean; afterwards: git checkout -- evidence/)
sd=$1; id=$2; tier=${3:-quick}
cd /repo && git status --short | grep -q . && { echo "repo dirty"; exit 1; }
git -C /repo apply /verif/seeded/$sd/patch.diff || { echo "patch failed"; exit 1; }
cd /verif && ./check $tier $id 2>&1 | grep -a -E "^VIOLATION|^  scenario=|KNOWN|Quick:|Thorough:|HARNESS" | cut -c1-420 | head -8
git -C /repo checkout -- .
git -C /repo status --short | head -3
git -C /verif checkout -- evidence/
