#!/bin/bash
# tools/seedcheck.sh <ID> [quick|thorough]: apply /verif/seeded/<ID>/patch.diff to /repo, run the check, revert (/repo must be clean; afterwards: git checkout -- evidence/)
id=$1; tier=${2:-quick}
cd /repo && git status --short | grep -q . && { echo "repo dirty"; exit 1; }
git -C /repo apply /verif/seeded/$id/patch.diff || { echo "patch failed"; exit 1; }
cd /verif && ./check $tier $id 2>&1 | grep -a -E "^VIOLATION|^  scenario=|KNOWN|Quick:|Thorough:|HARNESS" | cut -c1-420 | head -8
git -C /repo checkout -- .
git -C /repo status --short | head -3
