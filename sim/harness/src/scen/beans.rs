//! S-B: process-wide named singletons under concurrent first use (C26).
use super::{gen_sim, Scenario, SimOpts, Tier};
use crate::child::{fail, note, probe};
use crate::json::J;
use crate::obj;
use open_coroutine_core::common::beans::BeanFactory;
use open_coroutine_core::scheduler::Scheduler;
use std::collections::BTreeMap;
use std::sync::Mutex as StdMutex;
use vstd::sim::{self, Rng};

pub static SCENARIO: Scenario = Scenario {
    name: "beans",
    about: "2-4 threads whose first actions in a fresh process are get_or_default / init_bean+get_bean on the same names and Scheduler::new (shared queue bean); later lookups from every thread",
    gen,
    body,
    key_probes: &["beans.concurrent-first-use"],
    wall_ms: 20_000,
    chunk: 1,
};

#[derive(Debug, Default)]
struct Marker {
    _pad: [u64; 4],
}

const NAMES: [&str; 3] = ["beanA", "beanB", "beanC"];

struct Sh<T>(T);
unsafe impl<T> Send for Sh<T> {}

static ADDRS: StdMutex<Vec<(usize, usize, &'static str, usize)>> = StdMutex::new(Vec::new());

fn gen(g: &mut Rng, _tier: Tier) -> J {
    let n = g.range(2, 4);
    let sched = g.chance(1, 3);
    let mut ths = Vec::new();
    for _ in 0..n {
        let mut ops = Vec::new();
        let first_name = g.below(2);
        // first action: the racy one
        match g.below(4) {
            0 => ops.push(J::Arr(vec!["init".into(), first_name.into()])),
            _ => ops.push(J::Arr(vec!["god".into(), first_name.into()])),
        }
        if sched {
            ops.push(J::Arr(vec!["sched".into()]));
        }
        for _ in 0..g.range(0, 4) {
            let nm = g.below(3);
            match g.below(3) {
                0 => ops.push(J::Arr(vec!["god".into(), nm.into()])),
                1 => ops.push(J::Arr(vec!["get".into(), nm.into()])),
                _ => ops.push(J::Arr(vec!["init".into(), nm.into()])),
            }
        }
        ths.push(obj! {"ops" => J::Arr(ops)});
    }
    let mut sim = gen_sim(g, SimOpts { max_points: 300_000, ..SimOpts::default() });
    if let Some(k) = sim.get_mut("knobs") {
        k.set("queue.local_capacity", (*g.pick(&[1u64, 2, 4])).into());
        k.set("num_cpus", 2u64.into());
    }
    obj! {"threads" => J::Arr(ths), "k" => g.range(2, 6), "sim" => sim}
}

fn body(plan: &J) {
    ADDRS.lock().unwrap_or_else(|e| e.into_inner()).clear();
    let mut handles = Vec::new();
    for (ti, t) in plan.ga("threads").iter().enumerate() {
        let ops: Vec<J> = t.ga("ops").to_vec();
        handles.push(vstd::thread::spawn(move || {
            let mut sched: Option<Sh<Scheduler<'static>>> = None;
            for (oi, op) in ops.iter().enumerate() {
                let a = op.arr();
                let name = NAMES[a.get(1).map_or(0, J::us) % 3];
                let addr = match a[0].s() {
                    "god" => Some(std::ptr::from_ref(BeanFactory::get_or_default::<Marker>(name)) as usize),
                    "init" => {
                        BeanFactory::init_bean(name, Marker::default());
                        BeanFactory::get_bean::<Marker>(name).map(|m| std::ptr::from_ref(m) as usize)
                    }
                    "get" => BeanFactory::get_bean::<Marker>(name).map(|m| std::ptr::from_ref(m) as usize),
                    "sched" => {
                        sched = Some(Sh(Scheduler::new(format!("sched-{ti}"), 64 * 1024)));
                        None
                    }
                    _ => None,
                };
                if let Some(ad) = addr {
                    ADDRS.lock().unwrap_or_else(|e| e.into_inner()).push((ti, oi, name, ad));
                }
            }
            sched
        }));
    }
    let mut scheds: Vec<Sh<Scheduler<'static>>> = Vec::new();
    for h in handles {
        match h.join() {
            Ok(Some(s)) => scheds.push(s),
            Ok(None) => {}
            Err(_) => fail("bean-panic", format!("a bean operation panicked: {}", crate::child::last_panic())),
        }
    }
    if sim::report().switches > 1 {
        probe("beans.concurrent-first-use");
    }
    // every address handed out for one name must be the same, and must be what a later lookup returns
    let addrs = ADDRS.lock().unwrap_or_else(|e| e.into_inner()).clone();
    let mut by_name: BTreeMap<&str, Vec<(usize, usize, usize)>> = BTreeMap::new();
    for (ti, oi, name, ad) in addrs {
        by_name.entry(name).or_default().push((ti, oi, ad));
    }
    for (name, v) in &by_name {
        let later = BeanFactory::get_bean::<Marker>(name).map(|m| std::ptr::from_ref(m) as usize);
        for (ti, oi, ad) in v {
            if Some(*ad) != later || *ad != v[0].2 {
                fail(
                    "singleton-split",
                    format!(
                        "bean {name}: thread {ti} op {oi} received instance {ad:#x}, thread {} op {} received {:#x}, a later lookup returns {later:x?}",
                        v[0].0, v[0].1, v[0].2
                    ),
                );
            }
        }
    }
    note("names", by_name.len());
    // schedulers created concurrently must share one global coroutine queue: work submitted through
    // one of them is reachable from the other
    if scheds.len() >= 2 {
        let k = plan.gus("k").max(1);
        let done = std::rc::Rc::new(std::cell::Cell::new(0usize));
        let mut b = scheds.pop().expect("b");
        let a = scheds.pop().expect("a");
        for _ in 0..k {
            let d = done.clone();
            if a.0.submit_co(move |_, ()| { d.set(d.get() + 1); None }, None, None).is_err() {
                crate::child::harness_error("submit_co failed".into());
            }
        }
        for _ in 0..(4 * k + 8) {
            if done.get() >= k {
                break;
            }
            if b.0.try_timed_schedule(std::time::Duration::from_millis(5)).is_err() {
                fail("bean-panic", "try_schedule failed".into());
            }
        }
        if done.get() != k {
            fail(
                "singleton-split",
                format!("two schedulers created concurrently do not share the global queue: {k} coroutines submitted through one, the other could reach {}", done.get()),
            );
        }
        probe("beans.scheduler-pair");
        std::mem::forget(a);
        std::mem::forget(b);
    }
    for s in scheds {
        std::mem::forget(s);
    }
}
