//! S-M: signal-based preemption by the monitor thread (C22). Only built with the `preemptive` feature.
use super::{gen_sim, Scenario, SimOpts, Tier};
use crate::child::{fail, note, probe};
use crate::json::J;
use crate::obj;
use open_coroutine_core::common::constants::{CoroutineState, SyscallName, SyscallState};
use open_coroutine_core::common::now;
use open_coroutine_core::coroutine::listener::Listener;
use open_coroutine_core::coroutine::local::CoroutineLocal;
use open_coroutine_core::scheduler::{SchedulableCoroutine, SchedulableCoroutineState, SchedulableSuspender, Scheduler};
use std::sync::{Arc, Mutex as StdMutex};
use std::time::Duration;
use vstd::sim::{self, Rng};

pub static PREEMPT: Scenario = Scenario {
    name: "preempt",
    about: "1-4 scheduling threads, each with a scheduler holding a long computation without yields, short siblings, optionally a coroutine computing in a syscall state; the real monitor thread preempts with SIGURG (queued, delivered at scheduling points)",
    gen: gen_preempt,
    body: body_preempt,
    key_probes: &["pre.preempted"],
    wall_ms: 40_000,
    chunk: 1,
};

fn gen_preempt(g: &mut Rng, _tier: Tier) -> J {
    let nthreads = *g.pick(&[1u64, 1, 2, 3, 4]);
    let mut ths = Vec::new();
    for _ in 0..nthreads {
        ths.push(obj! {
            "busy_ms" => *g.pick(&[5u64, 20, 40, 80, 200]),
            // a second long computation on the same thread: it needs preempting while the first is parked
            "busy2_ms" => *g.pick(&[0u64, 0, 40, 80]),
            "siblings" => g.range(0, 3),
            "syscall_co" => g.chance(1, 3),
            "syscall_ms" => *g.pick(&[15u64, 30, 60]),
            "yielding" => g.chance(1, 3),
        });
    }
    let mut sim = gen_sim(g, SimOpts { max_points: 6_000_000, max_sim_ms: 30_000, late_signals: true, timing: true, ..SimOpts::default() });
    // one local queue per scheduling thread: the global queue creates num_cpus of them and hands them
    // out round robin, so with fewer CPUs than schedulers two schedulers would share one (recorded as
    // a known finding under C20; here every thread must really own its coroutines)
    if let Some(k) = sim.get_mut("knobs") {
        let have = k.gu("num_cpus");
        k.set("num_cpus", have.max(nthreads).into());
    }
    obj! {
        "threads" => J::Arr(ths),
        "sim" => sim,
    }
}

#[derive(Clone, Debug, Default)]
struct CoRec {
    /// thread on which the body started
    started_on: String,
    /// (parked at, by which thread's scheduler, resumed at)
    parks: Vec<(u64, String, Option<u64>)>,
    kind: String,
    started: Option<u64>,
    finished: Option<u64>,
    suspended_while_running: u32,
    first_preempt: Option<u64>,
    preempted_in_syscall: u32,
    result: Option<usize>,
}

type Recs = Arc<StdMutex<Vec<CoRec>>>;

#[derive(Debug)]
struct Watch {
    recs: Recs,
}

impl Listener<(), Option<usize>> for Watch {
    fn on_state_changed(&self, local: &CoroutineLocal, old: SchedulableCoroutineState, new: SchedulableCoroutineState) {
        if std::env::var("VSIM_TRACE_TAG").is_ok() && local.get::<usize>("tag").is_none() {
            eprintln!("[untagged] +{}us {:?}: {old:?} -> {new:?}", (now() % 1_000_000_000_000) / 1000, std::thread::current().id());
        }
        let Some(idx) = local.get::<usize>("tag").copied() else { return };
        if std::env::var("VSIM_TRACE_TAG").is_ok() {
            eprintln!("[tag {idx}] +{}us {:?}: {old:?} -> {new:?}", (now() % 1_000_000_000_000) / 1000, std::thread::current().id());
        }
        let mut r = self.recs.lock().unwrap_or_else(|e| e.into_inner());
        let me = format!("{:?}", std::thread::current().id());
        if let CoroutineState::Suspend((), _) = new {
            r[idx].parks.push((now(), me, None));
        } else if let (CoroutineState::Suspend((), _), CoroutineState::Running) = (old, new) {
            if let Some(p) = r[idx].parks.last_mut() {
                p.2 = Some(now());
            }
        }
        if let (CoroutineState::Running, CoroutineState::Suspend((), _)) = (old, new) {
            r[idx].suspended_while_running += 1;
            if r[idx].first_preempt.is_none() {
                r[idx].first_preempt = Some(now());
            }
        }
        if let (CoroutineState::Syscall(..), CoroutineState::Suspend(..)) = (old, new) {
            r[idx].preempted_in_syscall += 1;
        }
    }
}

fn checksum(n: u64) -> usize {
    let mut x = 0usize;
    for i in 0..n {
        x = x.wrapping_mul(31).wrapping_add(i as usize ^ 0x5a);
    }
    x
}

static ALL_SUBMITTED: std::sync::atomic::AtomicUsize = std::sync::atomic::AtomicUsize::new(0);

fn body_preempt(plan: &J) {
    ALL_SUBMITTED.store(0, std::sync::atomic::Ordering::SeqCst);
    let nthreads_total = plan.ga("threads").len();
    let recs: Recs = Arc::new(StdMutex::new(Vec::new()));
    let mut handles = Vec::new();
    for (ti, t) in plan.ga("threads").iter().enumerate() {
        let t = t.clone();
        let recs = recs.clone();
        handles.push(vstd::thread::spawn(move || {
            let mut sched = Scheduler::new(format!("pre-sched-{ti}"), 64 * 1024);
            sched.add_listener(Watch { recs: recs.clone() });
            let mut mine = Vec::new();
            let mut add = |kind: &str| -> usize {
                let mut r = recs.lock().unwrap_or_else(|e| e.into_inner());
                r.push(CoRec {
                    kind: kind.to_string(),
                    ..CoRec::default()
                });
                r.len() - 1
            };
            // the long computation
            let busy_ms = t.gu("busy_ms");
            let yielding = t.gb("yielding");
            let bi = add("busy");
            mine.push(bi);
            let rc = recs.clone();
            _ = sched.submit_co(
                move |s: &SchedulableSuspender<'_>, ()| {
                    if let Some(co) = SchedulableCoroutine::current() {
                        _ = co.put("tag", bi);
                    }
                    {
                        let mut g = rc.lock().unwrap_or_else(|e| e.into_inner());
                        g[bi].started = Some(now());
                        g[bi].started_on = format!("{:?}", std::thread::current().id());
                    }
                    let mut acc = 0usize;
                    for k in 0..busy_ms {
                        sim::cpu_work(1_000_000, 100_000);
                        acc = acc.wrapping_add(checksum(k + 1));
                        if yielding && k % 4 == 3 {
                            s.suspend();
                        }
                    }
                    let mut r = rc.lock().unwrap_or_else(|e| e.into_inner());
                    r[bi].finished = Some(now());
                    r[bi].result = Some(acc);
                    Some(acc)
                },
                None,
                None,
            );
            let busy2_ms = t.gu("busy2_ms");
            if busy2_ms > 0 {
                let b2 = add("busy2");
                mine.push(b2);
                let rc = recs.clone();
                _ = sched.submit_co(
                    move |_: &SchedulableSuspender<'_>, ()| {
                        if let Some(co) = SchedulableCoroutine::current() {
                            _ = co.put("tag", b2);
                            if std::env::var("VSIM_TRACE_TAG").is_ok() {
                                eprintln!("[busy2 tag {b2}] current = {} state {:?} on {:?}", co.name(), co.state(), std::thread::current().id());
                            }
                        } else if std::env::var("VSIM_TRACE_TAG").is_ok() {
                            eprintln!("[busy2 tag {b2}] NO current coroutine on {:?}", std::thread::current().id());
                        }
                        {
                            let mut g = rc.lock().unwrap_or_else(|e| e.into_inner());
                            g[b2].started = Some(now());
                            g[b2].started_on = format!("{:?}", std::thread::current().id());
                        }
                        let mut acc = 0usize;
                        for k in 0..busy2_ms {
                            sim::cpu_work(1_000_000, 100_000);
                            acc = acc.wrapping_add(checksum(k + 3));
                        }
                        let mut r = rc.lock().unwrap_or_else(|e| e.into_inner());
                        r[b2].finished = Some(now());
                        r[b2].result = Some(acc);
                        Some(acc)
                    },
                    None,
                    None,
                );
                probe("pre.two-busy");
            }
            for k in 0..t.gu("siblings") {
                let si = add("sibling");
                mine.push(si);
                let rc = recs.clone();
                _ = sched.submit_co(
                    move |_: &SchedulableSuspender<'_>, ()| {
                        if let Some(co) = SchedulableCoroutine::current() {
                            _ = co.put("tag", si);
                        }
                        rc.lock().unwrap_or_else(|e| e.into_inner())[si].started = Some(now());
                        sim::cpu_work(200_000, 100_000);
                        let v = checksum(100 + k);
                        let mut r = rc.lock().unwrap_or_else(|e| e.into_inner());
                        r[si].finished = Some(now());
                        r[si].result = Some(v);
                        Some(v)
                    },
                    None,
                    None,
                );
            }
            if t.gb("syscall_co") {
                let yi = add("syscall");
                mine.push(yi);
                let rc = recs.clone();
                let ms = t.gu("syscall_ms");
                _ = sched.submit_co(
                    move |_: &SchedulableSuspender<'_>, ()| {
                        let co = SchedulableCoroutine::current().expect("current");
                        _ = co.put("tag", yi);
                        rc.lock().unwrap_or_else(|e| e.into_inner())[yi].started = Some(now());
                        // computing while in a system-call state: must never be preempted
                        _ = co.syscall((), SyscallName::read, SyscallState::Executing);
                        let mut acc = 0usize;
                        for k in 0..ms {
                            sim::cpu_work(1_000_000, 100_000);
                            acc = acc.wrapping_add(checksum(k + 7));
                        }
                        _ = co.running();
                        let mut r = rc.lock().unwrap_or_else(|e| e.into_inner());
                        r[yi].finished = Some(now());
                        r[yi].result = Some(acc);
                        Some(acc)
                    },
                    None,
                    None,
                );
                probe("pre.syscall-co");
            }
            _ = ALL_SUBMITTED.fetch_add(1, std::sync::atomic::Ordering::SeqCst);
            // schedule until everything is done (bounded)
            let t0 = now();
            loop {
                match sched.try_timed_schedule(Duration::from_millis(10)) {
                    Err(e) => {
                        let unfinished: Vec<String> = recs.lock().unwrap_or_else(|e| e.into_inner()).iter().enumerate().filter(|(_, c)| c.finished.is_none()).map(|(i, c)| format!("{i}:{}", c.kind)).collect();
                        fail("schedule-error", format!("scheduling thread {ti}: try_timed_schedule failed at +{} us: {e}; unfinished coroutines: {unfinished:?}", (now() % 1_000_000_000_000) / 1000))
                    }
                    // nothing left to run before the slice was over: idle briefly like an event loop does,
                    // instead of spinning through millions of scheduling points
                    Ok((left, _)) if left > 0 => vstd::thread::sleep(Duration::from_micros(500)),
                    Ok(_) => {}
                }
                // keep scheduling until every thread's coroutines are done: this scheduler may hold
                // coroutines it stole from the others (an event loop never stops scheduling either)
                let done = {
                    let r = recs.lock().unwrap_or_else(|e| e.into_inner());
                    ALL_SUBMITTED.load(std::sync::atomic::Ordering::SeqCst) >= nthreads_total && r.iter().all(|c| c.finished.is_some())
                };
                if done || now() - t0 > 2_000_000_000 {
                    break;
                }
            }
            std::mem::forget(sched);
            (ti, mine)
        }));
    }
    let mut per_thread = Vec::new();
    for h in handles {
        match h.join() {
            Ok(x) => per_thread.push(x),
            Err(_) => fail("scheduler-thread-panic", format!("a scheduling thread panicked: {}", crate::child::last_panic())),
        }
    }
    if sim::counter("cause.hashset.modified-during-iteration") > 0 {
        fail(
            "monitor-set-race",
            format!(
                "the monitor iterated its set of preemption targets while a scheduling thread inserted/removed a node ({} time(s)): the set is shared without synchronisation",
                sim::counter("cause.hashset.modified-during-iteration")
            ),
        );
    }
    if sim::counter("signal.no-such-thread") > 0 {
        fail("signal-to-unknown-thread", "the monitor sent SIGURG to a thread that does not exist".into());
    }
    let r = recs.lock().unwrap_or_else(|e| e.into_inner()).clone();
    for (ti, mine) in &per_thread {
        let t = &plan.ga("threads")[*ti];
        for i in mine {
            let c = &r[*i];
            if c.finished.is_none() {
                fail("coroutine-lost", format!("thread {ti}: {} coroutine {i} did not finish within 2 s (preempted in a syscall state: {})", c.kind, c.preempted_in_syscall));
            }
            if c.preempted_in_syscall > 0 || (c.kind == "syscall" && c.suspended_while_running > 0) {
                fail("preempted-in-syscall", format!("thread {ti}: the coroutine computing in a system-call state was suspended by preemption"));
            }
        }
        // results
        for i in mine {
            let c = &r[*i];
            let want = match c.kind.as_str() {
                "busy" => (0..t.gu("busy_ms")).fold(0usize, |a, k| a.wrapping_add(checksum(k + 1))),
                "syscall" => (0..t.gu("syscall_ms")).fold(0usize, |a, k| a.wrapping_add(checksum(k + 7))),
                "busy2" => (0..t.gu("busy2_ms")).fold(0usize, |a, k| a.wrapping_add(checksum(k + 3))),
                _ => c.result.unwrap_or(0),
            };
            if c.result != Some(want) {
                fail("result-changed", format!("thread {ti}: {} coroutine computed {:?}, expected {want}", c.kind, c.result));
            }
        }
        // preemption: a long computation with a ready sibling is suspended once its slice is over,
        // and the sibling gets to run before the computation ends
        // two long computations on one thread: each must be suspended while the other one waits
        if let Some(b2) = mine.iter().map(|i| &r[*i]).find(|c| c.kind == "busy2") {
            let b1 = &r[mine[0]];
            if t.gu("busy_ms") >= 40 && t.gu("busy2_ms") >= 40 && !t.gb("yielding") {
                for (me, other) in [(b1, b2), (b2, b1)] {
                    let (Some(st), Some(fin)) = (me.started, me.finished) else { continue };
                    // the other one was parked (preempted, ready again) by this very thread's scheduler for
                    // the first 20 ms of this one's run: it was waiting here, not running elsewhere after
                    // being stolen
                    let other_waiting = !me.started_on.is_empty()
                        
                        && other.parks.iter().any(|(at, by, resumed)| *at <= st && by == &me.started_on && resumed.is_none_or(|t| t >= st + 20_000_000));
                    if other_waiting && fin - st >= 35_000_000 {
                        match me.first_preempt {
                            Some(p) if p <= st + 20_000_000 => probe("pre.preempted-both"),
                            Some(p) => fail("preempt-late", format!("thread {ti}: the {} computation was first suspended {} us after it started while another long computation was waiting on the same thread (slice 10 ms)", me.kind, (p - st) / 1000)),
                            None => {
                                let tl: Vec<String> = mine.iter().map(|i| &r[*i]).map(|c| format!("{} start {:?} first-suspend {:?} end {:?}", c.kind, c.started.map(|x| (x % 1_000_000_000_000) / 1000), c.first_preempt.map(|x| (x % 1_000_000_000_000) / 1000), c.finished.map(|x| (x % 1_000_000_000_000) / 1000))).collect();
                                fail("not-preempted", format!("thread {ti}: the {} computation ({} ms without yields) was never suspended although another long computation was waiting on the same thread; timeline (us): {tl:?}", me.kind, (fin - st) / 1_000_000))
                            }
                        }
                    }
                }
            }
        }
        let busy = &r[mine[0]];
        let sibs: Vec<&CoRec> = mine.iter().map(|i| &r[*i]).filter(|c| c.kind == "sibling").collect();
        let busy_ms = t.gu("busy_ms");
        if busy_ms >= 40 && !sibs.is_empty() && !t.gb("yielding") {
            let start = busy.started.unwrap_or(0);
            // the sibling may have run first (queue order); preemption matters if the busy one started
            // while a sibling was still waiting
            let waiting_sibling = sibs.iter().any(|s| s.started.is_none_or(|st| st > start));
            if waiting_sibling {
                match busy.first_preempt {
                    Some(p) if p <= start + 17_000_000 + 3_000_000 => probe("pre.preempted"),
                    Some(p) => fail("preempt-late", format!("thread {ti}: the {busy_ms} ms computation was first suspended {} us after it started (slice 10 ms)", (p - start) / 1000)),
                    None => fail("not-preempted", format!("thread {ti}: a {busy_ms} ms computation without yields was never suspended although a sibling was ready")),
                }
                let fin = busy.finished.unwrap_or(u64::MAX);
                // (not with a coroutine that computes in a syscall state on this thread - it cannot be
                // preempted, so a sibling that a late signal parked may wait behind it - nor with a
                // second long computation, which has its own oracle above)
                if !t.gb("syscall_co") && t.gu("busy2_ms") == 0 && !sibs.iter().all(|s| s.finished.is_some_and(|f| f < fin)) {
                    let tl: Vec<String> = mine.iter().map(|i| &r[*i]).map(|c| format!("{} start {:?} first-suspend {:?} end {:?}", c.kind, c.started.map(|x| (x % 1_000_000_000_000) / 1000), c.first_preempt.map(|x| (x % 1_000_000_000_000) / 1000), c.finished.map(|x| (x % 1_000_000_000_000) / 1000))).collect();
                    fail("not-preempted", format!("thread {ti}: a ready sibling finished only after the {busy_ms} ms computation; timeline (us): {tl:?}"));
                }
            }
        }
    }
    note("coroutines", r.len());
}
