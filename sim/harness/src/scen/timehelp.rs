//! C28: deadline arithmetic under extreme durations and clocks (simulated clock jumps), zero
//! socket limits; the pure `get_slices` sweep rides along and is labelled as such in the evidence.
use super::{gen_sim, Scenario, SimOpts, Tier};
use crate::child::{fail, note, probe};
use crate::json::J;
use crate::obj;
use open_coroutine_core::common::{get_slices, get_timeout_time, now};
use open_coroutine_core::scheduler::{SchedulableSuspender, Scheduler};
use std::time::Duration;
use vstd::sim::{self, Rng};

pub static TIMEHELP: Scenario = Scenario {
    name: "timehelp",
    about: "deadlines computed at generated (incl. extreme) clocks and durations; coroutines delayed by huge durations under a jumped clock must not run early; timeval->limit conversion; get_slices boundary sweep (pure, by-product)",
    gen: gen_timehelp,
    body: body_timehelp,
    key_probes: &[],
    wall_ms: 20_000,
    chunk: 1,
};

const DURS: [u128; 9] = [0, 1, 1_000_000, 1_000_000_000, 86_400_000_000_000, u64::MAX as u128 - 5, u64::MAX as u128, u64::MAX as u128 + 1, u128::MAX];

fn dur_of(ns: u128) -> Duration {
    if ns == u128::MAX {
        Duration::MAX
    } else {
        Duration::new((ns / 1_000_000_000) as u64, (ns % 1_000_000_000) as u32)
    }
}

fn gen_timehelp(g: &mut Rng, _tier: Tier) -> J {
    let mut cases = Vec::new();
    for _ in 0..g.range(2, 10) {
        cases.push(obj! {"dur" => g.below(DURS.len() as u64), "clock" => g.below(4)});
    }
    let mut sim = gen_sim(g, SimOpts { concurrent: false, max_points: 300_000, ..SimOpts::default() });
    sim.set("max_sim_ms", J::from(u64::MAX / 1_000_000));
    obj! {
        "cases" => J::Arr(cases),
        "huge_delay" => g.below(DURS.len() as u64),
        "jump_clock" => g.chance(1, 2),
        "slice_total" => *g.pick(&[0u64, 1, 9_999_999, 10_000_000, 10_000_001, 50_000_000, 73_000_001]),
        "slice" => *g.pick(&[1u64, 7_000, 10_000_000, 10_000_001, 1_000_000_000]),
        "tv_sec" => *g.pick(&[0i64, 0, 1, 2, 3600, i64::MAX / 2, i64::MAX]),
        "tv_usec" => *g.pick(&[0i64, 0, 1, 999_999, 2_500_000]),
        "sim" => sim,
    }
}

fn body_timehelp(plan: &J) {
    let base = sim::now_ns();
    for (ci, c) in plan.ga("cases").iter().enumerate() {
        let d = DURS[c.gus("dur") % DURS.len()];
        match c.gu("clock") {
            1 => sim::set_clock(u64::MAX - 1_000_000_000),
            2 => sim::set_clock(u64::MAX - 3),
            3 => sim::set_clock(base + 86_400_000_000_000),
            _ => sim::set_clock(base),
        }
        let n0 = u128::from(now());
        let got = u128::from(get_timeout_time(dur_of(d)));
        let n1 = u128::from(now());
        let dn = if d == u128::MAX { Duration::MAX.as_nanos() } else { d };
        let lo = (n0 + dn).min(u128::from(u64::MAX));
        let hi = (n1 + dn).min(u128::from(u64::MAX));
        if got < lo || got > hi {
            fail("deadline-wrong", format!("case {ci}: clock in [{n0}, {n1}], duration {dn} ns: get_timeout_time returned {got}, expected between {lo} and {hi} (saturating at u64::MAX)"));
        }
        if lo == u128::from(u64::MAX) {
            probe("time.saturated");
        }
    }
    sim::set_clock(base);
    // a coroutine delayed by a huge duration never runs early, also when the clock is near its end
    let d = DURS[plan.gus("huge_delay") % DURS.len()].max(2_000_000_000);
    let mut sched = Scheduler::new("time-sched".into(), 64 * 1024);
    let resumed = std::rc::Rc::new(std::cell::Cell::new(false));
    let r2 = resumed.clone();
    let dd = dur_of(d);
    _ = sched.submit_co(
        move |s: &SchedulableSuspender<'_>, ()| {
            s.delay(dd);
            r2.set(true);
            None
        },
        None,
        None,
    );
    if plan.gb("jump_clock") {
        sim::set_clock(u64::MAX - 60_000_000_000);
        probe("time.clock-near-end");
    }
    for _ in 0..5 {
        if sched.try_timed_schedule(Duration::from_millis(5)).is_err() {
            fail("schedule-error", "try_timed_schedule failed under an extreme clock".into());
        }
        sim::advance_clock(200_000_000);
    }
    // about 1 s has passed; the delay was at least 2 s (or practically infinite)
    if resumed.get() {
        fail("resumed-early", format!("a coroutine delayed by {d} ns was resumed within about one simulated second (its deadline wrapped?)"));
    }
    std::mem::forget(sched);
    // zero limit = unlimited; other values convert without overflow
    let tv = libc::timeval {
        tv_sec: plan.gi("tv_sec") as libc::time_t,
        tv_usec: plan.gi("tv_usec") as libc::suseconds_t,
    };
    let got = open_coroutine_core::syscall::verif_get_time_limit(&tv);
    let exact = (tv.tv_sec as u128) * 1_000_000_000 + (tv.tv_usec as u128) * 1_000;
    let want = if exact == 0 { u64::MAX } else { exact.min(u128::from(u64::MAX)) as u64 };
    if got != want {
        fail("limit-wrong", format!("timeval {{ {}, {} }} converts to a limit of {got} ns, expected {want} (zero means unlimited, saturating)", tv.tv_sec, tv.tv_usec));
    }
    // pure by-product: slice partition
    let (total, slice) = (plan.gu("slice_total"), plan.gu("slice").max(1));
    if total / slice <= 100_000 {
        let v = get_slices(Duration::from_nanos(total), Duration::from_nanos(slice));
        let sum: u128 = v.iter().map(Duration::as_nanos).sum();
        if sum != u128::from(total) || v.iter().any(|p| p.as_nanos() > u128::from(slice)) || (total == 0) != v.is_empty() {
            fail("slices-wrong", format!("get_slices({total} ns, {slice} ns) = {} piece(s) summing to {sum}", v.len()));
        }
    }
    note("cases", plan.ga("cases").len());
}
