//! S-S: one scheduler, generated coroutine programs, generated passes and cancels (C10).
use super::{gen_sim, Scenario, SimOpts, Tier};
use crate::child::{fail, note, probe};
use crate::json::J;
use crate::obj;
use open_coroutine_core::common::now;
use open_coroutine_core::scheduler::{SchedulableSuspender, Scheduler};
use std::collections::BTreeMap;
use std::sync::{Arc, Mutex as StdMutex};
use std::time::Duration;
use vstd::sim::{self, Rng};

pub static SCENARIO: Scenario = Scenario {
    name: "sched",
    about: "<=8 coroutine programs with priorities on one scheduler; scheduling passes separated by clock advances; cancels between passes and from a second thread during passes",
    gen,
    body,
    key_probes: &["sched.delay", "sched.cancel", "sched.panic"],
    wall_ms: 20_000,
    chunk: 1,
};

fn gen(g: &mut Rng, tier: Tier) -> J {
    let n = g.range(1, 8);
    let mut cos = Vec::new();
    for _ in 0..n {
        let mut steps = Vec::new();
        let ns = g.range(0, if tier == Tier::Quick { 6 } else { 14 });
        let mut end = "return";
        for _ in 0..ns {
            match g.below(12) {
                0..=3 => steps.push(J::Arr(vec!["suspend".into()])),
                4..=7 => steps.push(J::Arr(vec!["delay".into(), (*g.pick(&[0u64, 1_000, 200_000, 1_000_000, 5_000_000, 30_000_000])).into()])),
                8..=9 => steps.push(J::Arr(vec!["work".into(), (*g.pick(&[10_000u64, 500_000, 3_000_000])).into()])),
                10 => {
                    end = "panic";
                    break;
                }
                _ => steps.push(J::Arr(vec!["suspend".into()])),
            }
        }
        cos.push(obj! {"steps" => J::Arr(steps), "end" => end, "prio" => *g.pick(&[i64::MIN, -1, 0, 0, 0, 1, i64::MAX])});
    }
    let np = g.range(1, if tier == Tier::Quick { 10 } else { 20 });
    let mut passes = Vec::new();
    for _ in 0..np {
        passes.push(obj! {
            "advance" => *g.pick(&[0u64, 0, 100_000, 2_000_000, 10_000_000, 40_000_000]),
            "budget" => *g.pick(&[50_000u64, 1_000_000, 10_000_000, 100_000_000]),
        });
    }
    let mut cancels = Vec::new();
    for _ in 0..g.below(4) {
        cancels.push(obj! {
            "target" => g.below(n + 1), // n = an id nobody has
            "pass" => g.below(np),
            "concurrent" => g.chance(1, 2),
            "after_points" => g.below(400),
        });
    }
    obj! {
        "cos" => J::Arr(cos),
        "passes" => J::Arr(passes),
        "cancels" => J::Arr(cancels),
        "sim" => gen_sim(g, SimOpts { max_points: 1_500_000, stall: true, ..SimOpts::default() }),
    }
}

#[derive(Default, Clone)]
struct CoTrack {
    id: u64,
    steps: usize,
    /// (step index, clock when the step resumed, requested wake-up of the yield before it)
    resumed_at: Vec<(usize, u64, u64)>,
    wake_at: Option<u64>,
    finished: bool,
    running: bool,
    /// seq at which a cancel for this coroutine was registered while it was not running
    cancelled_at: Option<u64>,
    cancel_while_running: bool,
    steps_at_cancel: usize,
    last_step_seq: u64,
}

type Tracks = Arc<StdMutex<Vec<CoTrack>>>;

fn lock(t: &Tracks) -> std::sync::MutexGuard<'_, Vec<CoTrack>> {
    t.lock().unwrap_or_else(|e| e.into_inner())
}

fn body(plan: &J) {
    let ncos = plan.ga("cos").len();
    let tracks: Tracks = Arc::new(StdMutex::new(vec![CoTrack::default(); ncos]));
    let mut sched = Scheduler::new("sched-under-test".into(), 64 * 1024);
    for (i, c) in plan.ga("cos").iter().enumerate() {
        let steps: Vec<J> = c.ga("steps").to_vec();
        let end = c.gs("end").to_string();
        let tr = tracks.clone();
        let prio = c.gi("prio") as i64;
        let r = sched.submit_co(
            move |s: &SchedulableSuspender<'_>, ()| {
                lock(&tr)[i].running = true;
                for st in &steps {
                    let a = st.arr();
                    let mut want = 0u64;
                    match a[0].s() {
                        "suspend" => {
                            {
                                let mut t = lock(&tr);
                                t[i].running = false;
                                t[i].wake_at = Some(0);
                            }
                            s.suspend();
                        }
                        "delay" => {
                            probe("sched.delay");
                            let d = a[1].u();
                            want = now().saturating_add(d);
                            {
                                let mut t = lock(&tr);
                                t[i].running = false;
                                t[i].wake_at = Some(want);
                            }
                            s.delay(Duration::from_nanos(d));
                        }
                        _ => {
                            sim::cpu_work(a[1].u(), 200_000);
                            continue;
                        }
                    }
                    let t_now = now();
                    let seq = sim::seq();
                    let mut t = lock(&tr);
                    t[i].running = true;
                    t[i].wake_at = None;
                    t[i].steps += 1;
                    t[i].last_step_seq = seq;
                    let n = t[i].steps;
                    t[i].resumed_at.push((n, t_now, want));
                    if t_now < want {
                        drop(t);
                        fail("resumed-early", format!("coroutine {i} asked to sleep until {want} but was resumed at {t_now} ({} ns early)", want - t_now));
                    }
                    if let Some(cs) = t[i].cancelled_at {
                        if !t[i].cancel_while_running {
                            let at = t[i].steps_at_cancel;
                            drop(t);
                            fail("cancelled-resumed", format!("coroutine {i} was cancelled (registered at seq {cs}, after {at} steps, while it was not running) but was resumed again at seq {seq}"));
                        }
                    }
                }
                {
                    let mut t = lock(&tr);
                    t[i].finished = true;
                    t[i].running = false;
                }
                if end == "panic" {
                    probe("sched.panic");
                    panic!("coroutine {i} panics at its end");
                }
                Some(1000 + i)
            },
            None,
            Some(prio),
        );
        match r {
            Ok(id) => lock(&tracks)[i].id = id,
            Err(e) => crate::child::harness_error(format!("submit_co failed: {e}")),
        }
    }
    let ids: Vec<u64> = lock(&tracks).iter().map(|t| t.id).collect();
    let mut results: BTreeMap<u64, Result<Option<usize>, String>> = BTreeMap::new();
    let cancels: Vec<J> = plan.ga("cancels").to_vec();
    let do_cancel = |tracks: &Tracks, ids: &[u64], target: usize| {
        let id = ids.get(target).copied().unwrap_or(0xdead_beef_0000_0001);
        Scheduler::try_cancel_coroutine(id);
        probe("sched.cancel");
        let seq = sim::seq();
        if let Some(t) = lock(tracks).get_mut(target) {
            if t.cancelled_at.is_none() && !t.finished {
                t.cancelled_at = Some(seq);
                t.cancel_while_running = t.running;
                t.steps_at_cancel = t.steps;
            }
        }
    };
    let npass = plan.ga("passes").len();
    let mut absorb = |res: std::collections::HashMap<u64, Result<Option<usize>, &str>, vstd::collections::FixedState>, pi: usize| {
        for (id, r) in res {
            let r = r.map_err(str::to_string);
            if results.insert(id, r).is_some() {
                fail("result-twice", format!("pass {pi}: coroutine id {id} reported as finished a second time"));
            }
        }
    };
    for (pi, p) in plan.ga("passes").iter().enumerate() {
        sim::advance_clock(p.gu("advance"));
        // cancels between passes
        for c in cancels.iter().filter(|c| c.gus("pass") == pi && !c.gb("concurrent")) {
            do_cancel(&tracks, &ids, c.gus("target"));
        }
        // concurrent cancellers for this pass
        let mut hs = Vec::new();
        for c in cancels.iter().filter(|c| c.gus("pass") == pi && c.gb("concurrent")) {
            let (tr, idv, target, wait) = (tracks.clone(), ids.clone(), c.gus("target"), c.gu("after_points"));
            hs.push(vstd::thread::spawn(move || {
                for _ in 0..wait {
                    sim::point("canceller.wait");
                }
                let id = idv.get(target).copied().unwrap_or(0xdead_beef_0000_0001);
                // the registration is complete when the call returns: judge "was it running" there
                Scheduler::try_cancel_coroutine(id);
                probe("sched.cancel");
                let seq = sim::seq();
                if let Some(t) = lock(&tr).get_mut(target) {
                    if t.cancelled_at.is_none() && !t.finished {
                        t.cancelled_at = Some(seq);
                        // conservatively treat a cancel that raced with the pass as "may have been running"
                        t.cancel_while_running = true;
                        t.steps_at_cancel = t.steps;
                    }
                }
            }));
        }
        let start = now();
        let due: Vec<usize> = lock(&tracks)
            .iter()
            .enumerate()
            .filter(|(_, t)| !t.finished && t.cancelled_at.is_none() && t.wake_at.is_some_and(|w| w <= start))
            .map(|(i, _)| i)
            .collect();
        let steps_before: Vec<usize> = lock(&tracks).iter().map(|t| t.steps).collect();
        let fin_before: Vec<bool> = lock(&tracks).iter().map(|t| t.finished).collect();
        let timeout_time = start.saturating_add(p.gu("budget"));
        let (left, res) = match sched.try_timeout_schedule(timeout_time) {
            Ok(x) => x,
            Err(e) => fail("schedule-error", format!("pass {pi}: try_timeout_schedule failed: {e}")),
        };
        absorb(res, pi);
        for h in hs {
            _ = h.join();
        }
        // a pass that ran out of work (left > 0) with due coroutines must have resumed each of them
        if left > 0 {
            let t = lock(&tracks);
            for i in due {
                let progressed = t[i].steps > steps_before[i] || (t[i].finished && !fin_before[i]);
                if !progressed && t[i].cancelled_at.is_none() {
                    let w = t[i].wake_at;
                    drop(t);
                    fail("due-not-resumed", format!("pass {pi} started at {start} with {left} ns of budget to spare, but coroutine {i}, due since {w:?}, was not resumed in it"));
                }
            }
        }
        let _ = npass;
    }
    // let everything that is not cancelled finish: advance the clock past every delay
    for round in 0..200 {
        let pending = lock(&tracks).iter().any(|t| !t.finished && t.cancelled_at.is_none());
        if !pending {
            break;
        }
        sim::advance_clock(31_000_000);
        let tt = now().saturating_add(200_000_000);
        match sched.try_timeout_schedule(tt) {
            Ok((_, res)) => absorb(res, 1000 + round),
            Err(e) => fail("schedule-error", format!("final pass: try_timeout_schedule failed: {e}")),
        }
    }
    let t = lock(&tracks).clone();
    for (i, c) in t.iter().enumerate() {
        let end_panic = plan.ga("cos")[i].gs("end") == "panic";
        if c.cancelled_at.is_some() {
            // may have finished before the cancel took effect (if it was running) -- nothing to demand
            continue;
        }
        if !c.finished {
            fail("not-finished", format!("coroutine {i} (never cancelled) did not finish after 200 further passes with the clock moved past every delay; steps done {}", c.steps));
        }
        match results.get(&c.id) {
            None => fail("result-missing", format!("coroutine {i} finished but no pass reported its result")),
            Some(Ok(v)) => {
                if end_panic || *v != Some(1000 + i) {
                    fail("result-wrong", format!("coroutine {i}: reported Ok({v:?}), expected {}", if end_panic { "its panic".to_string() } else { format!("Some({})", 1000 + i) }));
                }
            }
            Some(Err(m)) => {
                if !end_panic {
                    fail("result-wrong", format!("coroutine {i}: reported Err({m}), expected Some({})", 1000 + i));
                }
                if !m.contains(&format!("coroutine {i} panics")) {
                    fail("result-wrong", format!("coroutine {i}: reported error message {m:?} is not its own panic message"));
                }
            }
        }
    }
    // cancelled while not running: no step after the cancel (checked online); and nobody else harmed (above)
    note("results", results.len());
    std::mem::forget(sched);
}
