//! S-U: hooked calls routed through the (simulated) io_uring ring (C27). Built with `io_uring`.
use super::hooks::{init_runtime, socketpair};
use super::{gen_sim, Scenario, SimOpts, Tier};
use crate::child::{fail, note, probe};
use crate::json::J;
use crate::obj;
use libc::{c_int, c_void};
use open_coroutine_core::common::now;
use open_coroutine_core::net::EventLoops;
use open_coroutine_core::syscall as hk;
use std::sync::{Arc, Mutex as StdMutex};
use std::time::Duration;
use vstd::sim::Rng;

pub static URING: Scenario = Scenario {
    name: "uring",
    about: "concurrent hooked read/write/recv/send/pread/pwrite calls from coroutine tasks (1-2 event loops) and plain threads through the simulated ring; every completion encodes the identity of its submission, arrives after a generated delay, success or -errno",
    gen: gen_uring,
    body: body_uring,
    key_probes: &["uring.error-completion", "uring.concurrent"],
    wall_ms: 40_000,
    chunk: 1,
};

const CALLS: [&str; 7] = ["read", "write", "recv", "send", "pread", "pwrite", "sendto"];
const ERRNOS: [i32; 5] = [libc::EAGAIN, libc::ECANCELED, libc::EINTR, libc::EIO, libc::ECONNRESET];

/// What the simulated kernel answers for a submission whose buffer length is `len`.
fn answer(len: u32) -> (i32, u64) {
    let delay = 100_000 + u64::from(len % 29) * 1_000_000;
    if len % 5 == 0 {
        (-ERRNOS[(len as usize / 5) % ERRNOS.len()], delay)
    } else {
        ((len - len % 3) as i32, delay)
    }
}

fn policy(s: &io_uring::Sqe) -> (i32, u64) {
    answer(s.len)
}

fn gen_uring(g: &mut Rng, _tier: Tier) -> J {
    let n = g.range(1, 12) as usize;
    let mut lens: Vec<u64> = Vec::new();
    while lens.len() < n {
        let l = g.range(8, 240);
        if !lens.contains(&l) {
            lens.push(l);
        }
    }
    // one run in eight uses socket time limits (a timed-out call leaves its submission in flight: the
    // recorded finding C27-timeout-in-flight; the other runs stay free of it)
    let with_limits = g.chance(1, 8);
    let mut calls = Vec::new();
    for l in &lens {
        let mut c = obj! {
            "call" => *g.pick(&CALLS),
            "len" => *l,
            "caller" => if g.chance(2, 3) { "coroutine" } else { "thread" },
            "start_us" => g.below(20_000),
        };
        if with_limits && g.chance(1, 2) {
            // a socket time limit shorter than many of the completion delays (0.1 .. 28.1 ms)
            c.set("limit_ms", (*g.pick(&[3u64, 8, 15])).into());
        }
        if g.chance(1, 3) {
            // the same caller goes straight on with a second call (lengths 300.. are reserved for these)
            c.set("then_call", (*g.pick(&CALLS)).into());
            c.set("then_len", (300 + *l).into());
        }
        calls.push(c);
    }
    let loops = g.range(1, 2);
    let mut sim = gen_sim(g, SimOpts { max_points: 4_000_000, max_sim_ms: 30_000, ..SimOpts::default() });
    super::ensure_cpus(&mut sim, loops);
    obj! {
        "loops" => loops,
        "calls" => J::Arr(calls),
        "sim" => sim,
    }
}

#[derive(Clone, Debug, Default)]
struct CallRec {
    limit_ns: u64,
    call: String,
    len: u32,
    began: Option<u64>,
    ended: Option<u64>,
    ret: isize,
    errno: i32,
}

fn do_uring_call(call: &str, fd: c_int, len: usize) -> (isize, i32) {
    let (r, e) = do_uring_call_inner(call, fd, len);
    if r == -1 && e == libc::ETIMEDOUT {
        // the hook gave up on its time limit; the submission is still in flight and its slot in the
        // loop's wait table is still there
        vstd::sim::count("cause.uring.timed-out-call-left-in-flight");
    }
    (r, e)
}

fn do_uring_call_inner(call: &str, fd: c_int, len: usize) -> (isize, i32) {
    let mut buf = vec![0u8; len];
    unsafe { *libc::__errno_location() = 0 };
    let p = buf.as_mut_ptr().cast::<c_void>();
    let r = match call {
        "read" => hk::read(None, fd, p, len),
        "recv" => hk::recv(None, fd, p, len, 0),
        "pread" => hk::pread(None, fd, p, len, 0),
        "write" => hk::write(None, fd, p.cast_const(), len),
        "send" => hk::send(None, fd, p.cast_const(), len, 0),
        "sendto" => hk::sendto(None, fd, p.cast_const(), len, 0, std::ptr::null(), 0),
        _ => hk::pwrite(None, fd, p.cast_const(), len, 0),
    };
    let e = unsafe { *libc::__errno_location() };
    (r, e)
}

fn body_uring(plan: &J) {
    io_uring::vsim_set_policy(policy);
    let loops = plan.gus("loops").clamp(1, 2);
    init_runtime(loops, 0, 65536);
    let calls: Vec<J> = plan.ga("calls").to_vec();
    let n = calls.len();
    // slot i: the call itself; slot n + i: the call the same caller makes right afterwards (if any)
    let recs: Arc<StdMutex<Vec<CallRec>>> = Arc::new(StdMutex::new(vec![CallRec::default(); 2 * n]));
    let mut socks = Vec::new();
    let mut joins = Vec::new();
    let mut threads = Vec::new();
    for (i, c) in calls.iter().enumerate() {
        let (fd, peer) = socketpair();
        socks.push((fd, peer));
        let (call, len, start) = (c.gs("call").to_string(), c.gus("len"), c.gu("start_us"));
        let limit_ms = c.get("limit_ms").map_or(0, J::u);
        if limit_ms > 0 {
            super::hooks::set_timeout(fd, libc::SO_RCVTIMEO, limit_ms);
            super::hooks::set_timeout(fd, libc::SO_SNDTIMEO, limit_ms);
            probe("uring.time-limit");
        }
        {
            let mut r = recs.lock().unwrap_or_else(|e| e.into_inner());
            r[i].call = call.clone();
            r[i].len = len as u32;
            r[i].limit_ns = limit_ms * 1_000_000;
        }
        let then: Option<(String, usize)> = c.get("then_call").map(|t| (t.s().to_string(), c.gus("then_len")));
        if let Some((tc, tl)) = &then {
            let mut r = recs.lock().unwrap_or_else(|e| e.into_inner());
            r[n + i].call = tc.clone();
            r[n + i].len = *tl as u32;
            r[n + i].limit_ns = limit_ms * 1_000_000;
            probe("uring.follow-up-call");
        }
        let rc = recs.clone();
        let work = move || {
            rc.lock().unwrap_or_else(|e| e.into_inner())[i].began = Some(now());
            let (r, e) = do_uring_call(&call, fd, len);
            {
                let mut g = rc.lock().unwrap_or_else(|e| e.into_inner());
                g[i].ended = Some(now());
                g[i].ret = r;
                g[i].errno = e;
            }
            if let Some((tc, tl)) = then {
                rc.lock().unwrap_or_else(|e| e.into_inner())[n + i].began = Some(now());
                let (r, e) = do_uring_call(&tc, fd, tl);
                let mut g = rc.lock().unwrap_or_else(|e| e.into_inner());
                g[n + i].ended = Some(now());
                g[n + i].ret = r;
                g[n + i].errno = e;
            }
        };
        if c.gs("caller") == "coroutine" {
            joins.push(EventLoops::submit_task(
                Some(format!("uring-call-{i}")),
                move |_| {
                    if let Some(s) = open_coroutine_core::scheduler::SchedulableSuspender::current() {
                        s.delay(Duration::from_micros(start));
                    }
                    work();
                    Some(i)
                },
                None,
                None,
            ));
        } else {
            threads.push(vstd::thread::spawn(move || {
                vstd::thread::sleep(Duration::from_micros(start));
                work();
            }));
        }
    }
    if n > 1 {
        probe("uring.concurrent");
    }
    // everything must come back: two calls of at most 29 ms each + start 20 ms + a few slices
    vstd::thread::sleep(Duration::from_millis(180));
    let snap = recs.lock().unwrap_or_else(|e| e.into_inner()).clone();
    for (i, c) in snap.iter().enumerate() {
        if c.call.is_empty() {
            continue; // no follow-up call in this slot
        }
        let (want, delay) = answer(c.len);
        let Some(end) = c.ended else {
            fail(
                "uring-call-blocked",
                format!("hooked {}(len {}) through io_uring: its completion was due {} us after submission, the call has not returned 180 ms into the run (began {:?})", c.call, c.len, delay / 1000, c.began.map(|b| b % 1_000_000_000)),
            );
        };
        let _ = end;
        // on a socket with a time limit a call may give up (this property does not say when); what it
        // must never do is report somebody else's completion
        if c.limit_ns > 0 && c.ret == -1 && (c.errno == libc::ETIMEDOUT || c.errno == libc::EAGAIN) {
            probe("uring.timed-out");
            continue;
        }
        if want >= 0 {
            if c.ret != want as isize {
                fail("uring-wrong-result", format!("hooked {}(len {}) returned {} (errno {}), its own completion carried {want}", c.call, c.len, c.ret, c.errno));
            }
        } else {
            probe("uring.error-completion");
            if c.ret != -1 || c.errno != -want {
                fail("uring-wrong-result", format!("hooked {}(len {}): its completion carried {want} (-errno), the call returned {} with errno {}", c.call, c.len, c.ret, c.errno));
            }
        }
    }
    for h in joins {
        _ = h.timeout_join(Duration::from_millis(200));
    }
    for t in threads {
        _ = t.join();
    }
    let subs = io_uring::vsim_submitted();
    note("submitted", subs.len());
    note("calls", n);
    for (a, b) in socks {
        unsafe {
            _ = libc::close(a);
            _ = libc::close(b);
        }
    }
}
