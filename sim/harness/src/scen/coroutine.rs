//! S-K: the coroutine kernel on one thread (C07 lifecycle, C08 values/panics, C09 requests).
use super::{gen_sim, Scenario, SimOpts, Tier};
use crate::child::{fail, note, probe};
use crate::json::J;
use crate::obj;
use open_coroutine_core::common::constants::{CoroutineState, SyscallName, SyscallState};
use open_coroutine_core::coroutine::listener::Listener;
use open_coroutine_core::coroutine::local::CoroutineLocal;
use open_coroutine_core::coroutine::suspender::Suspender;
use open_coroutine_core::coroutine::Coroutine;
use open_coroutine_core::scheduler::{SchedulableCoroutine, SchedulableCoroutineState};
use std::cell::RefCell;
use std::rc::Rc;
use std::time::Duration;
use vstd::sim::{self, Rng};

pub static SCENARIOS: [Scenario; 2] = [
    Scenario {
        name: "co_life",
        about: "1-5 coroutines on one thread: generated bodies (suspend/delay/until/cancel/syscall-state yields/panic/return), generated resume order incl. refused resumes and direct transition calls; recording listeners",
        gen: gen_life,
        body: body_life,
        key_probes: &["co.syscall-yield", "co.delay", "co.cancel", "co.refused", "co.panic"],
        wall_ms: 20_000,
        chunk: 32,
    },
    Scenario {
        name: "co_vals",
        about: "typed coroutine<u64,u64,u64>: values in, values out, return or panic (&str / String payload) at any step, panicking listeners",
        gen: gen_vals,
        body: body_vals,
        key_probes: &[],
        wall_ms: 20_000,
        chunk: 32,
    },
];

const SYSCALLS: [SyscallName; 4] = [SyscallName::read, SyscallName::recv, SyscallName::sleep, SyscallName::write];

type St = SchedulableCoroutineState;

#[derive(Clone, Debug)]
enum Ev {
    Changed(St, St, u64),
    On(&'static str, St),
    OnComplete(St, Option<usize>),
    OnError(St, String),
}

#[derive(Debug)]
struct Rec {
    evs: Rc<RefCell<Vec<Ev>>>,
}

impl Listener<(), Option<usize>> for Rec {
    fn on_state_changed(&self, _: &CoroutineLocal, old: St, new: St) {
        self.evs.borrow_mut().push(Ev::Changed(old, new, open_coroutine_core::common::now()));
    }
    fn on_ready(&self, _: &CoroutineLocal, old: St) {
        self.evs.borrow_mut().push(Ev::On("ready", old));
    }
    fn on_running(&self, _: &CoroutineLocal, old: St) {
        self.evs.borrow_mut().push(Ev::On("running", old));
    }
    fn on_suspend(&self, _: &CoroutineLocal, old: St) {
        self.evs.borrow_mut().push(Ev::On("suspend", old));
    }
    fn on_syscall(&self, _: &CoroutineLocal, old: St) {
        self.evs.borrow_mut().push(Ev::On("syscall", old));
    }
    fn on_cancel(&self, _: &CoroutineLocal, old: St) {
        self.evs.borrow_mut().push(Ev::On("cancel", old));
    }
    fn on_complete(&self, _: &CoroutineLocal, old: St, result: Option<usize>) {
        self.evs.borrow_mut().push(Ev::OnComplete(old, result));
    }
    fn on_error(&self, _: &CoroutineLocal, old: St, message: &str) {
        self.evs.borrow_mut().push(Ev::OnError(old, message.to_string()));
    }
}

/// A listener that panics in the callbacks selected by `mask` (bit per callback kind).
#[derive(Debug)]
struct Bomb {
    mask: u32,
}

impl Bomb {
    fn maybe(&self, bit: u32, what: &str) {
        if self.mask & (1 << bit) != 0 {
            probe("co.listener-panic");
            panic!("listener bomb in {what}");
        }
    }
}

impl Listener<(), Option<usize>> for Bomb {
    fn on_state_changed(&self, _: &CoroutineLocal, _: St, _: St) {
        self.maybe(0, "on_state_changed");
    }
    fn on_ready(&self, _: &CoroutineLocal, _: St) {
        self.maybe(1, "on_ready");
    }
    fn on_running(&self, _: &CoroutineLocal, _: St) {
        self.maybe(2, "on_running");
    }
    fn on_suspend(&self, _: &CoroutineLocal, _: St) {
        self.maybe(3, "on_suspend");
    }
    fn on_syscall(&self, _: &CoroutineLocal, _: St) {
        self.maybe(4, "on_syscall");
    }
    fn on_cancel(&self, _: &CoroutineLocal, _: St) {
        self.maybe(5, "on_cancel");
    }
    fn on_complete(&self, _: &CoroutineLocal, _: St, _: Option<usize>) {
        self.maybe(6, "on_complete");
    }
    fn on_error(&self, _: &CoroutineLocal, _: St, _: &str) {
        self.maybe(7, "on_error");
    }
}

/// What the body asked for in its latest yield.
#[derive(Clone, Copy, Debug, PartialEq)]
enum Req {
    None,
    Plain,
    Until(u64),
    /// delay(d): requested at a clock in [lo, hi]
    Delay(u64, u64, u64),
    Cancel,
    SysYield,
    SysCancel,
}

#[derive(Debug)]
struct Shared {
    req: Req,
    steps_done: usize,
    in_sys: Option<SyscallName>,
}

// ------------------------------------------------------------------------------------------------
// generation

fn gen_body(g: &mut Rng, max_steps: usize) -> (Vec<J>, J) {
    let n = g.range(0, max_steps as u64) as usize;
    let mut steps: Vec<J> = Vec::new();
    let mut in_sys = false;
    let mut ended = false;
    for _ in 0..n {
        if in_sys {
            match g.below(14) {
                0..=3 => steps.push(J::Arr(vec!["sys_delay".into(), (*g.pick(&[0u64, 1_000, 100_000, 2_000_000, 10_000_000])).into()])),
                4..=5 => steps.push(J::Arr(vec!["sys_plain".into()])),
                6 => {
                    steps.push(J::Arr(vec!["sys_cancel".into()]));
                    ended = true;
                    break;
                }
                7 => steps.push(J::Arr(vec!["sys".into(), g.below(4).into()])),
                // yields made in whatever sub-state the call is in (Executing, Timeout, Callback): the
                // state a hooked wait is in when it is woken and waits again
                8..=9 => steps.push(J::Arr(vec!["sys_sub".into(), g.below(3).into()])),
                10..=11 => steps.push(J::Arr(vec!["sys_raw_delay".into(), (*g.pick(&[0u64, 100_000, 3_000_000, 3_600_000_000_000])).into()])),
                _ => {
                    steps.push(J::Arr(vec!["leave".into()]));
                    in_sys = false;
                }
            }
        } else {
            match g.below(20) {
                0..=5 => steps.push(J::Arr(vec!["suspend".into()])),
                6..=8 => steps.push(J::Arr(vec!["delay".into(), (*g.pick(&[0u64, 1, 1_000, 500_000, 3_000_000, 20_000_000])).into()])),
                9..=10 => steps.push(J::Arr(vec!["until".into(), (*g.pick(&[0i64, -5_000_000, 1_000_000, 8_000_000, 40_000_000])).into()])),
                11 => {
                    steps.push(J::Arr(vec!["cancel".into()]));
                    ended = true;
                    break;
                }
                12..=16 => {
                    steps.push(J::Arr(vec!["sys".into(), g.below(4).into()]));
                    in_sys = true;
                }
                17 => steps.push(J::Arr(vec!["work".into(), (*g.pick(&[1_000u64, 100_000, 2_000_000])).into()])),
                _ => {
                    steps.push(J::Arr(vec!["panic".into(), g.below(2).into()]));
                    ended = true;
                    break;
                }
            }
        }
    }
    if in_sys && !ended {
        steps.push(J::Arr(vec!["leave".into()]));
    }
    (steps, J::Null)
}

fn gen_life(g: &mut Rng, tier: Tier) -> J {
    let ncos = g.range(1, 5) as usize;
    let max_steps = if tier == Tier::Quick { 12 } else { 30 };
    let mut cos = Vec::new();
    for _ in 0..ncos {
        let (steps, _) = gen_body(g, max_steps);
        cos.push(obj! {"steps" => J::Arr(steps), "bomb" => if g.chance(1, 5) { g.below(256) } else { 0 }});
    }
    let nact = g.range(2, if tier == Tier::Quick { 60 } else { 160 });
    let mut acts = Vec::new();
    for _ in 0..nact {
        let i = g.below(ncos as u64);
        match g.below(20) {
            0..=10 => acts.push(J::Arr(vec!["resume".into(), i.into()])),
            11..=13 => acts.push(J::Arr(vec!["advance".into(), (*g.pick(&[1_000u64, 1_000_000, 5_000_000, 50_000_000])).into()])),
            14..=15 => acts.push(J::Arr(vec!["wake".into(), i.into(), g.below(2).into()])),
            _ => acts.push(J::Arr(vec!["call".into(), i.into(), g.below(7).into()])),
        }
    }
    obj! {
        "cos" => J::Arr(cos),
        "acts" => J::Arr(acts),
        "sim" => gen_sim(g, SimOpts { concurrent: false, max_points: 400_000, ..SimOpts::default() }),
    }
}

// ------------------------------------------------------------------------------------------------
// oracle helpers

fn is_terminal(s: &St) -> bool {
    matches!(s, CoroutineState::Complete(_) | CoroutineState::Error(_) | CoroutineState::Cancelled)
}

/// Is old -> new an edge of the documented graph? (`at` = clock when it was reported)
fn edge_ok(old: &St, new: &St, at: u64) -> bool {
    use CoroutineState as S;
    match (old, new) {
        (S::Ready, S::Running) => true,
        (S::Running, S::Suspend(..) | S::Syscall(..) | S::Complete(_) | S::Error(_) | S::Cancelled) => true,
        (S::Syscall(_, a, _), S::Syscall(_, b, _)) => a == b,
        (S::Syscall(..), S::Running) => true,
        (S::Suspend(_, t), S::Ready | S::Running) => *t <= at,
        _ => false,
    }
}

fn kind_of(s: &St) -> &'static str {
    use CoroutineState as S;
    match s {
        S::Ready => "ready",
        S::Running => "running",
        S::Suspend(..) => "suspend",
        S::Syscall(..) => "syscall",
        S::Cancelled => "cancel",
        S::Complete(_) => "complete",
        S::Error(_) => "error",
    }
}

/// Check the events of one operation: edges, chaining from `before` to `after`, one matching
/// callback per change.
fn check_events(ci: usize, what: &str, before: St, after: St, evs: &[Ev]) {
    let mut cur = before;
    let mut i = 0;
    while i < evs.len() {
        let Ev::Changed(old, new, at) = &evs[i] else {
            fail("listener-protocol", format!("co{ci} {what}: callback {:?} without a preceding state change", evs[i]));
        };
        if *old != cur {
            fail(
                "listener-chain",
                format!("co{ci} {what}: change reported as {old:?} -> {new:?} but the previously reported state was {cur:?}"),
            );
        }
        if !edge_ok(old, new, *at) {
            fail("illegal-transition", format!("co{ci} {what}: reported transition {old:?} -> {new:?} (clock {at}) is not in the documented graph"));
        }
        // exactly one matching on_<kind>
        let want = kind_of(new);
        let ok = match evs.get(i + 1) {
            Some(Ev::On(k, o)) => *k == want && o == old,
            Some(Ev::OnComplete(o, r)) => want == "complete" && o == old && CoroutineState::Complete(*r) == *new,
            Some(Ev::OnError(o, m)) => want == "error" && o == old && matches!(new, CoroutineState::Error(e) if *e == m.as_str()),
            _ => false,
        };
        if !ok {
            fail(
                "listener-protocol",
                format!("co{ci} {what}: change {old:?} -> {new:?} not followed by exactly one matching on_{want} callback (next: {:?})", evs.get(i + 1)),
            );
        }
        cur = *new;
        i += 2;
    }
    if cur != after {
        fail(
            "unreported-change",
            format!("co{ci} {what}: state is {after:?} but the listeners last saw {cur:?} (state before the operation {before:?}, {} event(s))", evs.len()),
        );
    }
}

struct Co {
    co: SchedulableCoroutine<'static>,
    evs: Rc<RefCell<Vec<Ev>>>,
    sh: Rc<RefCell<Shared>>,
    nsteps: usize,
    dead: bool,
}

fn run_steps(steps: Vec<J>, sh: Rc<RefCell<Shared>>, start_ns: u64, s: &Suspender<'_, (), ()>) {
    for st in steps {
        let a = st.arr();
        let co = SchedulableCoroutine::current().expect("current coroutine inside its own body");
        // a shrunk plan may ask for a Running-state yield while in a syscall state (or the other way
        // round): such steps are skipped, so every executed body is well-formed
        let running = matches!(co.state(), CoroutineState::Running);
        let needs_running = matches!(a[0].s(), "suspend" | "delay" | "until" | "cancel" | "panic" | "work");
        if needs_running && !running {
            sh.borrow_mut().steps_done += 1;
            continue;
        }
        match a[0].s() {
            "suspend" => {
                sh.borrow_mut().req = Req::Plain;
                s.suspend();
            }
            "delay" => {
                let d = a[1].u();
                let lo = open_coroutine_core::common::now();
                sh.borrow_mut().req = Req::Delay(d, lo, u64::MAX);
                probe("co.delay");
                s.delay(Duration::from_nanos(d));
            }
            "until" => {
                let t = (start_ns as i128 + a[1].i()).max(0) as u64;
                sh.borrow_mut().req = Req::Until(t);
                probe("co.delay");
                s.until(t);
            }
            "cancel" => {
                sh.borrow_mut().req = Req::Cancel;
                probe("co.cancel");
                s.cancel();
            }
            "sys" => {
                let name = SYSCALLS[a[1].us() % 4];
                let cur = sh.borrow().in_sys;
                // entering a nested different call is refused by the state machine: keep the outer one
                let name = cur.unwrap_or(name);
                if co.syscall((), name, SyscallState::Executing).is_ok() {
                    sh.borrow_mut().in_sys = Some(name);
                }
            }
            "sys_delay" => {
                if let CoroutineState::Syscall((), name, _) = co.state() {
                    let ts = open_coroutine_core::common::now().saturating_add(a[1].u());
                    _ = co.syscall((), name, SyscallState::Suspend(ts));
                    sh.borrow_mut().req = Req::SysYield;
                    probe("co.syscall-yield");
                    s.until(ts);
                    if let CoroutineState::Syscall((), name, SyscallState::Callback | SyscallState::Timeout) = co.state() {
                        _ = co.syscall((), name, SyscallState::Executing);
                    }
                }
            }
            "sys_sub" => {
                if let CoroutineState::Syscall((), name, _) = co.state() {
                    let sub = [SyscallState::Executing, SyscallState::Timeout, SyscallState::Callback][a[1].us() % 3];
                    _ = co.syscall((), name, sub);
                }
            }
            "sys_raw_delay" => {
                // a timed yield in the current sub-state, whatever it is
                if let CoroutineState::Syscall(..) = co.state() {
                    let ts = open_coroutine_core::common::now().saturating_add(a[1].u());
                    sh.borrow_mut().req = Req::SysYield;
                    probe("co.syscall-yield");
                    probe("co.syscall-yield-raw");
                    s.until(ts);
                }
            }
            "sys_plain" => {
                if let CoroutineState::Syscall((), name, _) = co.state() {
                    _ = co.syscall((), name, SyscallState::Suspend(u64::MAX));
                    sh.borrow_mut().req = Req::SysYield;
                    probe("co.syscall-yield");
                    s.suspend();
                    if let CoroutineState::Syscall((), name, SyscallState::Callback | SyscallState::Timeout) = co.state() {
                        _ = co.syscall((), name, SyscallState::Executing);
                    }
                }
            }
            "sys_cancel" => {
                if let CoroutineState::Syscall(..) = co.state() {
                    sh.borrow_mut().req = Req::SysCancel;
                    probe("co.syscall-yield");
                    probe("co.cancel");
                    s.cancel();
                }
            }
            "leave" => {
                leave_syscall(co);
                sh.borrow_mut().in_sys = None;
            }
            "work" => sim::cpu_work(a[1].u(), 100_000),
            "panic" => {
                probe("co.panic");
                if a[1].u() == 0 {
                    panic!("static body panic");
                } else {
                    let n = sh.borrow().steps_done;
                    panic!("formatted body panic at step {n}");
                }
            }
            _ => {}
        }
        sh.borrow_mut().steps_done += 1;
    }
    // like the facade of every hooked call: leave the syscall state before returning
    if let Some(co) = SchedulableCoroutine::current() {
        if matches!(co.state(), CoroutineState::Syscall(..)) {
            leave_syscall(co);
        }
    }
}

/// What every hooked call does on its way out: a woken call goes back to Executing, then to Running.
fn leave_syscall(co: &SchedulableCoroutine<'_>) {
    if let CoroutineState::Syscall((), name, SyscallState::Callback | SyscallState::Timeout) = co.state() {
        _ = co.syscall((), name, SyscallState::Executing);
    }
    _ = co.running();
}

fn body_life(plan: &J) {
    let start_ns = sim::now_ns();
    let mut cos: Vec<Co> = Vec::new();
    for (i, c) in plan.ga("cos").iter().enumerate() {
        let steps: Vec<J> = c.ga("steps").to_vec();
        let nsteps = steps.len();
        let sh = Rc::new(RefCell::new(Shared {
            req: Req::None,
            steps_done: 0,
            in_sys: None,
        }));
        let sh2 = sh.clone();
        let co = Coroutine::new(
            Some(format!("co-{i}")),
            move |s: &Suspender<'_, (), ()>, ()| {
                run_steps(steps, sh2, start_ns, s);
                Some(i)
            },
            Some(64 * 1024),
            None,
        );
        let Ok(mut co) = co else {
            crate::child::harness_error("coroutine stack allocation failed".into());
        };
        let evs = Rc::new(RefCell::new(Vec::new()));
        let bomb = c.gu("bomb") as u32;
        if bomb != 0 {
            co.add_listener(Bomb { mask: bomb });
        }
        co.add_listener(Rec { evs: evs.clone() });
        cos.push(Co {
            co,
            evs,
            sh,
            nsteps,
            dead: false,
        });
    }
    let mut resumes = 0u64;
    for (ai, act) in plan.ga("acts").iter().enumerate() {
        let a = act.arr();
        match a[0].s() {
            "advance" => sim::advance_clock(a[1].u()),
            "resume" => {
                let ci = a[1].us() % cos.len().max(1);
                let c = &mut cos[ci];
                if c.dead {
                    continue;
                }
                let before = c.co.state();
                let steps_before = c.sh.borrow().steps_done;
                c.evs.borrow_mut().clear();
                c.sh.borrow_mut().req = Req::None;
                let t_call = open_coroutine_core::common::now();
                let r = c.co.resume();
                let t_ret = open_coroutine_core::common::now();
                resumes += 1;
                let after = c.co.state();
                let evs = c.evs.borrow().clone();
                let what = format!("act {ai} resume");
                check_events(ci, &what, before, after, &evs);
                let req = c.sh.borrow().req;
                match r {
                    Err(e) => {
                        probe("co.refused");
                        // a refused resume must change nothing and run no user code
                        if after != before || !evs.is_empty() || c.sh.borrow().steps_done != steps_before {
                            fail("refused-resume-side-effect", format!("co{ci} {what}: returned Err({e}) but state {before:?} -> {after:?}, {} event(s)", evs.len()));
                        }
                        let legal = matches!(before, CoroutineState::Ready | CoroutineState::Running)
                            || matches!(before, CoroutineState::Suspend(_, t) if t <= t_call)
                            || matches!(before, CoroutineState::Syscall(_, _, SyscallState::Executing | SyscallState::Callback | SyscallState::Timeout));
                        if legal {
                            fail("resume-refused", format!("co{ci} {what}: resume of a coroutine in state {before:?} (clock {t_call}) was refused: {e}"));
                        }
                    }
                    Ok(res) => {
                        if is_terminal(&before) {
                            // finished: nothing may happen
                            if c.sh.borrow().steps_done != steps_before || !evs.is_empty() || after != before {
                                fail("terminal-left", format!("co{ci} {what}: finished coroutine ({before:?}) ran code or changed state: now {after:?}"));
                            }
                            if res != before {
                                fail("terminal-result", format!("co{ci} {what}: resume of finished coroutine returned {res:?}, state is {before:?}"));
                            }
                            continue;
                        }
                        if res != after {
                            fail("resume-result-mismatch", format!("co{ci} {what}: resume returned {res:?} but the coroutine's state is {after:?}"));
                        }
                        // C09: the result reflects exactly what this coroutine asked for in this yield
                        match (req, res) {
                            (Req::Plain, CoroutineState::Suspend((), 0)) => {}
                            (Req::Until(t), CoroutineState::Suspend((), t2)) if t == t2 => {}
                            (Req::Delay(d, lo, _), CoroutineState::Suspend((), t2)) if t2 >= lo.saturating_add(d) && t2 <= t_ret.saturating_add(d) => {}
                            (Req::Cancel, CoroutineState::Cancelled) => {}
                            (Req::SysYield, CoroutineState::Syscall(..)) => {}
                            (Req::SysCancel, CoroutineState::Syscall(..) | CoroutineState::Cancelled) => {}
                            (Req::None, CoroutineState::Complete(Some(v))) if v == ci => {}
                            (Req::None, CoroutineState::Error(m)) => {
                                if !m.contains("body panic") {
                                    // message fidelity is C08's business; recorded as a probe only
                                    probe("co.panic-message-lost");
                                }
                            }
                            (Req::None, CoroutineState::Complete(v)) => {
                                fail("wrong-result", format!("co{ci} {what}: completed with {v:?}, expected Some({ci})"));
                            }
                            (q, r) => {
                                fail(
                                    "request-leak",
                                    format!("co{ci} {what}: the body's yield asked for {q:?} but the resume reported {r:?} (clock at call {t_call}, at return {t_ret})"),
                                );
                            }
                        }
                        if matches!(req, Req::SysCancel | Req::Cancel) && !matches!(after, CoroutineState::Cancelled) {
                            // cancel() never returns: unless the coroutine is Cancelled (a terminal state
                            // that refuses every further resume, which the next acts check) it must not
                            // be resumed again
                            c.dead = true;
                        }
                        if is_terminal(&after) && c.sh.borrow().steps_done < c.nsteps && matches!(after, CoroutineState::Complete(_)) {
                            fail("early-complete", format!("co{ci} {what}: reported Complete after {} of {} steps", c.sh.borrow().steps_done, c.nsteps));
                        }
                    }
                }
            }
            "wake" => {
                // what the scheduler does for a coroutine parked in a syscall: Timeout or Callback
                let ci = a[1].us() % cos.len().max(1);
                let c = &mut cos[ci];
                if c.dead {
                    continue;
                }
                if let CoroutineState::Syscall((), name, SyscallState::Suspend(_)) = c.co.state() {
                    let before = c.co.state();
                    c.evs.borrow_mut().clear();
                    let sub = if a[2].u() == 0 { SyscallState::Timeout } else { SyscallState::Callback };
                    let r = c.co.syscall((), name, sub);
                    let after = c.co.state();
                    let evs = c.evs.borrow().clone();
                    check_events(ci, &format!("act {ai} wake"), before, after, &evs);
                    if r.is_err() {
                        fail("resume-refused", format!("co{ci} act {ai}: Syscall(Suspend) -> Syscall({sub:?}) of the same call refused"));
                    }
                }
            }
            "call" => {
                let ci = a[1].us() % cos.len().max(1);
                let c = &mut cos[ci];
                if c.dead {
                    continue;
                }
                let before = c.co.state();
                c.evs.borrow_mut().clear();
                let which = a[2].u();
                let r = match which {
                    0 => c.co.verif_ready(),
                    1 => c.co.running(),
                    2 => c.co.verif_suspend((), sim::now_ns() + 1_000_000),
                    3 => c.co.syscall((), SYSCALLS[(ai + ci) % 4], SyscallState::Executing),
                    4 => c.co.verif_cancel(),
                    5 => c.co.verif_complete(Some(999)),
                    _ => c.co.verif_error("direct error"),
                };
                let after = c.co.state();
                let evs = c.evs.borrow().clone();
                let what = format!("act {ai} direct call #{which}");
                check_events(ci, &what, before, after, &evs);
                if r.is_err() && (!evs.is_empty() || after != before) {
                    fail("refused-call-side-effect", format!("co{ci} {what}: returned Err but state {before:?} -> {after:?}, {} event(s)", evs.len()));
                }
                if is_terminal(&before) && (after != before || !evs.is_empty()) {
                    fail("terminal-left", format!("co{ci} {what}: finished coroutine left {before:?} for {after:?}"));
                }
                // a direct call changed the state behind the body's back: the body's own bookkeeping
                // (what it believes about syscall state) no longer applies, so stop driving this one
                if after != before {
                    c.dead = true;
                }
            }
            _ => {}
        }
    }
    note("resumes", resumes);
    // coroutines are dropped here, possibly mid-execution (allowed)
    for c in cos {
        drop(c.co);
    }
}

// ------------------------------------------------------------------------------------------------
// co_vals (C08)

fn gen_vals(g: &mut Rng, tier: Tier) -> J {
    let n = g.range(0, if tier == Tier::Quick { 20 } else { 50 });
    let mut yields = Vec::new();
    let mut args = Vec::new();
    for _ in 0..n {
        yields.push(J::from(g.next_u64()));
    }
    for _ in 0..=n {
        args.push(J::from(g.next_u64()));
    }
    let end = match g.below(4) {
        0 => "panic_str",
        1 => "panic_string",
        _ => "return",
    };
    obj! {
        "yields" => J::Arr(yields),
        "args" => J::Arr(args),
        "ret" => g.next_u64(),
        "end" => end,
        "bomb" => if g.chance(1, 4) { g.below(256) } else { 0 },
        "extra_resumes" => g.below(3),
        // length of the formatted panic message (characters), plain or with multi-byte characters
        "msg_chars" => *g.pick(&[0u64, 0, 40, 200, 255, 256, 257, 1_000, 5_000]),
        "msg_wide" => g.chance(1, 2),
        "sim" => gen_sim(g, SimOpts { concurrent: false, max_points: 200_000, ..SimOpts::default() }),
    }
}

#[derive(Debug)]
struct Rec64 {
    completes: Rc<RefCell<Vec<u64>>>,
    errors: Rc<RefCell<Vec<String>>>,
    mask: u32,
}

impl Listener<u64, u64> for Rec64 {
    fn on_state_changed(&self, _: &CoroutineLocal, _: CoroutineState<u64, u64>, _: CoroutineState<u64, u64>) {
        if self.mask & 1 != 0 {
            panic!("listener bomb in on_state_changed");
        }
    }
    fn on_running(&self, _: &CoroutineLocal, _: CoroutineState<u64, u64>) {
        if self.mask & 4 != 0 {
            panic!("listener bomb in on_running");
        }
    }
    fn on_suspend(&self, _: &CoroutineLocal, _: CoroutineState<u64, u64>) {
        if self.mask & 8 != 0 {
            panic!("listener bomb in on_suspend");
        }
    }
    fn on_complete(&self, _: &CoroutineLocal, _: CoroutineState<u64, u64>, r: u64) {
        self.completes.borrow_mut().push(r);
        if self.mask & 64 != 0 {
            panic!("listener bomb in on_complete");
        }
    }
    fn on_error(&self, _: &CoroutineLocal, _: CoroutineState<u64, u64>, m: &str) {
        self.errors.borrow_mut().push(m.to_string());
        if self.mask & 128 != 0 {
            panic!("listener bomb in on_error");
        }
    }
}

fn body_vals(plan: &J) {
    let yields: Vec<u64> = plan.ga("yields").iter().map(J::u).collect();
    let args: Vec<u64> = plan.ga("args").iter().map(J::u).collect();
    if args.len() != yields.len() + 1 {
        return; // shrunk into an inconsistent shape: nothing to check
    }
    let ret = plan.gu("ret");
    let end = plan.gs("end").to_string();
    let got: Rc<RefCell<Vec<u64>>> = Rc::new(RefCell::new(Vec::new()));
    let got2 = got.clone();
    let ys = yields.clone();
    let end2 = end.clone();
    let unique = ret ^ 0x5555;
    // the whole message must come back: a tail marker after a generated amount of padding
    let pad: String = {
        let wide = plan.gb("msg_wide");
        (0..plan.gus("msg_chars")).map(|k| if wide && k % 3 == 0 { ['é', '語', '🦀'][k / 3 % 3] } else { char::from(b'a' + (k % 26) as u8) }).collect()
    };
    let long_msg = format!("formatted payload panic {unique} {pad} END{unique}");
    let long_msg2 = long_msg.clone();
    let co = Coroutine::<u64, u64, u64>::new(
        Some("vals".into()),
        move |s: &Suspender<'_, u64, u64>, first: u64| {
            got2.borrow_mut().push(first);
            for y in &ys {
                let p = s.suspend_with(*y);
                got2.borrow_mut().push(p);
            }
            match end2.as_str() {
                "panic_str" => panic!("static payload panic"),
                "panic_string" => panic!("{long_msg2}"),
                _ => ret,
            }
        },
        Some(64 * 1024),
        None,
    );
    let Ok(mut co) = co else {
        crate::child::harness_error("coroutine stack allocation failed".into());
    };
    let completes = Rc::new(RefCell::new(Vec::new()));
    let errors = Rc::new(RefCell::new(Vec::new()));
    co.add_listener(Rec64 {
        completes: completes.clone(),
        errors: errors.clone(),
        mask: plan.gu("bomb") as u32,
    });
    if plan.gu("bomb") != 0 {
        probe("co.listener-panic");
    }
    for k in 0..args.len() {
        let r = std::panic::catch_unwind(std::panic::AssertUnwindSafe(|| co.resume_with(args[k])));
        let r = match r {
            Ok(r) => r,
            Err(_) => fail("unwound-into-caller", format!("resume #{k} unwound into the caller: {}", crate::child::last_panic())),
        };
        let r = match r {
            Ok(r) => r,
            Err(e) => fail("resume-refused", format!("resume #{k} refused: {e}")),
        };
        if got.borrow().len() != k + 1 || got.borrow()[k] != args[k] {
            fail("value-in", format!("resume #{k} passed {} but the body's pending suspend returned {:?}", args[k], got.borrow().get(k)));
        }
        if k < yields.len() {
            if r != CoroutineState::Suspend(yields[k], 0) {
                fail("value-out", format!("resume #{k}: the body yielded {} but the resume reported {r:?}", yields[k]));
            }
        } else {
            match end.as_str() {
                "return" => {
                    if r != CoroutineState::Complete(ret) {
                        fail("value-out", format!("final resume: the body returned {ret} but the resume reported {r:?}"));
                    }
                    if *completes.borrow() != vec![ret] {
                        fail("completion-count", format!("on_complete calls: {:?}, expected exactly [{ret}]", completes.borrow()));
                    }
                }
                "panic_str" => {
                    probe("co.panic");
                    match r {
                        CoroutineState::Error(m) if m.contains("static payload panic") => {}
                        other => fail("panic-message", format!("body panicked with \"static payload panic\" but the resume reported {other:?}")),
                    }
                }
                _ => {
                    probe("co.panic");
                    let want = long_msg.clone();
                    match r {
                        CoroutineState::Error(m) if m.contains(&want) => {}
                        CoroutineState::Error(m) => fail("panic-message", format!("body panicked with a formatted message of {} bytes (\"{}...\") but the resume reported only {} bytes: {:?}", want.len(), want.chars().take(40).collect::<String>(), m.len(), m.chars().take(60).collect::<String>())),
                        other => fail("panic-message", format!("body panicked with a formatted message of {} bytes but the resume reported {other:?}", want.len())),
                    }
                }
            }
        }
    }
    // resuming a finished coroutine reports the same outcome again and runs nothing
    for _ in 0..plan.gu("extra_resumes") {
        let before = co.state();
        let n = got.borrow().len();
        let r = co.resume_with(7);
        if got.borrow().len() != n {
            fail("terminal-left", "a finished coroutine ran user code again".into());
        }
        if let Ok(r) = r {
            if r != before {
                fail("terminal-result", format!("resume of finished coroutine returned {r:?}, state was {before:?}"));
            }
        }
    }
    if end == "return" && completes.borrow().len() != 1 {
        fail("completion-count", format!("on_complete called {} times", completes.borrow().len()));
    }
}

// ------------------------------------------------------------------------------------------------
// co_local (C25): coroutine-local storage histories with the coroutine dropped at an arbitrary point

thread_local! {
    static DROPS: RefCell<std::collections::BTreeMap<u64, u32>> = const { RefCell::new(std::collections::BTreeMap::new()) };
}

#[derive(Debug)]
struct Val {
    id: u64,
    tag: u64,
}

impl Drop for Val {
    fn drop(&mut self) {
        DROPS.with(|d| *d.borrow_mut().entry(self.id).or_insert(0) += 1);
    }
}

const KEYS: [&str; 5] = ["k0", "k1", "k2", "k3", "k4"];

pub static LOCAL_SCENARIO: Scenario = Scenario {
    name: "co_local",
    about: "put/get/get_mut/remove histories over <=4 coroutines x <=5 keys, executed inside the bodies and through the handle, with each coroutine dropped at an arbitrary point (never started / suspended / finished)",
    gen: gen_local,
    body: body_local,
    key_probes: &[],
    wall_ms: 20_000,
    chunk: 32,
};

fn gen_local(g: &mut Rng, tier: Tier) -> J {
    let ncos = g.range(1, 4);
    let nops = g.range(1, if tier == Tier::Quick { 40 } else { 120 });
    let mut ops = Vec::new();
    let mut id = 0u64;
    for _ in 0..nops {
        let c = g.below(ncos);
        let k = g.below(5);
        let inside = g.chance(2, 3);
        match g.below(10) {
            0..=3 => {
                id += 1;
                ops.push(J::Arr(vec!["put".into(), c.into(), k.into(), id.into(), inside.into()]));
            }
            4..=5 => ops.push(J::Arr(vec!["get".into(), c.into(), k.into(), 0u64.into(), inside.into()])),
            6..=7 => ops.push(J::Arr(vec!["get_mut".into(), c.into(), k.into(), 0u64.into(), inside.into()])),
            8 => ops.push(J::Arr(vec!["remove".into(), c.into(), k.into(), 0u64.into(), inside.into()])),
            _ => ops.push(J::Arr(vec!["drop".into(), c.into(), g.below(2).into()])),
        }
    }
    obj! {
        "ncos" => ncos,
        "ops" => J::Arr(ops),
        "sim" => gen_sim(g, SimOpts { concurrent: false, max_points: 400_000, ..SimOpts::default() }),
    }
}

/// (op, key, id) -> what happened, written by the body for "inside" ops
type Mail = Rc<RefCell<Option<(String, usize, u64)>>>;
type Reply = Rc<RefCell<Option<(Option<u64>, Option<u64>)>>>;

fn do_op(l: &CoroutineLocal<'static>, op: &str, key: usize, id: u64) -> (Option<u64>, Option<u64>) {
    // returns (id, tag) of the value returned/seen, if any
    match op {
        "put" => l.put(KEYS[key], Val { id, tag: 0 }).map_or((None, None), |v| (Some(v.id), Some(v.tag))),
        "get" => l.get::<Val>(KEYS[key]).map_or((None, None), |v| (Some(v.id), Some(v.tag))),
        "get_mut" => l.get_mut::<Val>(KEYS[key]).map_or((None, None), |v| {
            v.tag += 1;
            (Some(v.id), Some(v.tag))
        }),
        _ => l.remove::<Val>(KEYS[key]).map_or((None, None), |v| (Some(v.id), Some(v.tag))),
    }
}

fn body_local(plan: &J) {
    DROPS.with(|d| d.borrow_mut().clear());
    let ncos = plan.gus("ncos").clamp(1, 4);
    struct Slot {
        co: Option<SchedulableCoroutine<'static>>,
        mail: Mail,
        reply: Reply,
        model: std::collections::BTreeMap<usize, (u64, u64)>,
        started: bool,
    }
    let mut slots: Vec<Slot> = Vec::new();
    for i in 0..ncos {
        let mail: Mail = Rc::new(RefCell::new(None));
        let reply: Reply = Rc::new(RefCell::new(None));
        let (m2, r2) = (mail.clone(), reply.clone());
        let co = Coroutine::new(
            Some(format!("local-{i}")),
            move |s: &Suspender<'_, (), ()>, ()| {
                loop {
                    let job = m2.borrow_mut().take();
                    match job {
                        Some((op, key, id)) => {
                            if op == "finish" {
                                return Some(0);
                            }
                            let me = SchedulableCoroutine::current().expect("current");
                            let r = do_op(me, &op, key, id);
                            *r2.borrow_mut() = Some(r);
                        }
                        None => {}
                    }
                    s.suspend();
                }
            },
            Some(64 * 1024),
            None,
        );
        let Ok(co) = co else {
            crate::child::harness_error("coroutine stack allocation failed".into());
        };
        slots.push(Slot {
            co: Some(co),
            mail,
            reply,
            model: std::collections::BTreeMap::new(),
            started: false,
        });
    }
    let mut expect_dropped: std::collections::BTreeSet<u64> = std::collections::BTreeSet::new();
    let mut all_ids: Vec<u64> = Vec::new();
    for (oi, op) in plan.ga("ops").iter().enumerate() {
        let a = op.arr();
        let kind = a[0].s().to_string();
        let ci = a[1].us() % ncos;
        if kind == "drop" {
            let finish_first = a.get(2).is_some_and(|x| x.u() == 1);
            let sl = &mut slots[ci];
            if let Some(mut co) = sl.co.take() {
                if finish_first {
                    *sl.mail.borrow_mut() = Some(("finish".into(), 0, 0));
                    for _ in 0..3 {
                        if matches!(co.resume(), Ok(CoroutineState::Complete(_))) {
                            probe("local.drop-finished");
                            break;
                        }
                    }
                } else if sl.started {
                    probe("local.drop-suspended");
                } else {
                    probe("local.drop-never-started");
                }
                for (_, (id, _)) in std::mem::take(&mut sl.model) {
                    _ = expect_dropped.insert(id);
                }
                drop(co);
                // documented: values still stored are dropped with the coroutine
                let d = DROPS.with(|d| d.borrow().clone());
                for id in &expect_dropped {
                    match d.get(id).copied().unwrap_or(0) {
                        1 => {}
                        0 => fail("not-released", format!("op {oi}: coroutine {ci} was dropped but value {id}, still stored in its local storage, was not dropped")),
                        n => fail("double-drop", format!("op {oi}: value {id} dropped {n} times")),
                    }
                }
            }
            continue;
        }
        let (key, id, inside) = (a[2].us() % 5, a[3].u(), a[4].b());
        let sl = &mut slots[ci];
        let Some(co) = sl.co.as_mut() else { continue };
        if kind == "put" {
            all_ids.push(id);
        }
        let got = if inside {
            *sl.mail.borrow_mut() = Some((kind.clone(), key, id));
            *sl.reply.borrow_mut() = None;
            sl.started = true;
            if co.resume().is_err() {
                fail("resume-refused", format!("op {oi}: resume refused"));
            }
            let Some(r) = sl.reply.borrow_mut().take() else {
                fail("local-op-lost", format!("op {oi}: the body did not execute the operation"));
            };
            r
        } else {
            do_op(co, &kind, key, id)
        };
        // model
        let exp = match kind.as_str() {
            "put" => sl.model.insert(key, (id, 0)).map_or((None, None), |(i, t)| {
                _ = expect_dropped.insert(i);
                (Some(i), Some(t))
            }),
            "get" => sl.model.get(&key).map_or((None, None), |(i, t)| (Some(*i), Some(*t))),
            "get_mut" => sl.model.get_mut(&key).map_or((None, None), |e| {
                e.1 += 1;
                (Some(e.0), Some(e.1))
            }),
            _ => sl.model.remove(&key).map_or((None, None), |(i, t)| {
                _ = expect_dropped.insert(i);
                (Some(i), Some(t))
            }),
        };
        if got != exp {
            fail("local-map-semantics", format!("op {oi}: {kind}({}) on coroutine {ci} returned (id,tag) {got:?}, the map model says {exp:?}", KEYS[key]));
        }
        // privacy: the other coroutines see their own contents only
        for (cj, other) in slots.iter().enumerate() {
            if cj == ci {
                continue;
            }
            if let Some(oc) = other.co.as_ref() {
                let seen = oc.get::<Val>(KEYS[key]).map(|v| v.id);
                let want = other.model.get(&key).map(|e| e.0);
                if seen != want {
                    fail("local-not-private", format!("op {oi}: after {kind}({}) on coroutine {ci}, coroutine {cj} sees {seen:?} under that key, expected {want:?}", KEYS[key]));
                }
            }
        }
    }
    // drop everything that is left
    for sl in &mut slots {
        if let Some(co) = sl.co.take() {
            for (_, (id, _)) in std::mem::take(&mut sl.model) {
                _ = expect_dropped.insert(id);
            }
            drop(co);
        }
    }
    let d = DROPS.with(|d| d.borrow().clone());
    for id in &all_ids {
        let n = d.get(id).copied().unwrap_or(0);
        if n > 1 {
            fail("double-drop", format!("value {id} dropped {n} times"));
        }
        if expect_dropped.contains(id) && n == 0 {
            fail("not-released", format!("value {id} was still stored when its coroutine was dropped, and was never dropped"));
        }
    }
    note("values", all_ids.len());
}
