//! S-K (stacks): C23 stack growth and C24 memory faults inside coroutines.
use super::{gen_sim, Scenario, SimOpts, Tier};
use crate::child::{fail, note, probe};
use crate::json::J;
use crate::obj;
use open_coroutine_core::common::constants::CoroutineState;
use open_coroutine_core::coroutine::suspender::Suspender;
use open_coroutine_core::coroutine::Coroutine;
use open_coroutine_core::scheduler::SchedulableCoroutine;
use std::sync::Mutex as StdMutex;
use vstd::sim::Rng;

pub static GROW: Scenario = Scenario {
    name: "grow",
    about: "deep recursion through maybe_grow_with (red zone / segment size pairs, frame sizes 1-16 KiB) inside a coroutine and on a plain thread with a small stack; a panic raised at a chosen depth and caught by the caller; then the same recursion again",
    gen: gen_grow,
    body: body_grow,
    key_probes: &["grow.new-segment"],
    wall_ms: 30_000,
    chunk: 1,
};

// (red zone, segment size). The red zone has to cover what this harness itself runs between two checks
// (unoptimised frames of the library, the bookkeeping comparisons and their formatting).
// The last two ask for a red zone above half the segment size (legal: a fresh segment still holds it).
const PAIRS: [(usize, usize); 5] = [(16 * 1024, 64 * 1024), (32 * 1024, 128 * 1024), (64 * 1024, 256 * 1024), (48 * 1024, 64 * 1024), (100 * 1024, 128 * 1024)];

/// The caller's side of the contract: what runs between two checks (one frame of the recursion plus
/// the bookkeeping frames) must fit into the red zone it asks for, and a fresh segment must hold it.
fn fitting_frame(pair: usize, frame_kib: usize) -> usize {
    match pair % PAIRS.len() {
        0 => 1,
        1 | 3 => frame_kib.min(4),
        _ => frame_kib,
    }
}

fn gen_grow(g: &mut Rng, tier: Tier) -> J {
    let pair = g.below(PAIRS.len() as u64);
    obj! {
        "where" => if g.chance(1, 2) { "coroutine" } else { "thread" },
        "pair" => pair,
        "frame" => fitting_frame(pair as usize, *g.pick(&[1usize, 4, 16])),
        "depth" => g.range(1, if tier == Tier::Quick { 80 } else { 200 }),
        "panic_at" => if g.chance(1, 2) { g.range(1, 60) } else { 0 },
        "rounds" => g.range(1, 3),
        "sim" => gen_sim(g, SimOpts { concurrent: false, max_points: 500_000, ..SimOpts::default() }),
    }
}

#[derive(Clone, Copy)]
struct GrowCfg {
    red: usize,
    size: usize,
    frame_kib: usize,
    panic_at: usize,
    in_co: bool,
}

static GROW_ERR: StdMutex<Option<String>> = StdMutex::new(None);

fn grow_err(m: String) {
    let mut g = GROW_ERR.lock().unwrap_or_else(|e| e.into_inner());
    if g.is_none() {
        *g = Some(m);
    }
}

macro_rules! frame_fn {
    ($name:ident, $n:expr) => {
        #[inline(never)]
        fn $name(depth: usize, level: usize, cfg: GrowCfg) -> usize {
            let mut pad = [0u8; $n];
            pad[level % $n] = level as u8;
            std::hint::black_box(&mut pad);
            let r = step(depth, level, cfg);
            std::hint::black_box(&pad);
            r + usize::from(pad[level % $n] == level as u8)
        }
    };
}
frame_fn!(frame1, 1024);
frame_fn!(frame4, 4096);
frame_fn!(frame16, 16 * 1024);

#[inline(never)]
fn step(depth: usize, level: usize, cfg: GrowCfg) -> usize {
    if cfg.panic_at != 0 && level == cfg.panic_at {
        probe("grow.panic");
        panic!("grow: panic at level {level}");
    }
    if depth == 0 {
        return 0;
    }
    let before = if cfg.in_co { SchedulableCoroutine::current().map(Coroutine::stack_infos) } else { None };
    let r = SchedulableCoroutine::maybe_grow_with(cfg.red, cfg.size, || {
        // inside the callback: at least `red` bytes of stack must be available below the stack pointer
        let sp = psm::stack_pointer() as usize;
        if cfg.in_co {
            if let Some(co) = SchedulableCoroutine::current() {
                let infos = co.stack_infos();
                if let Some(b) = &before {
                    if infos.len() > b.len() {
                        probe("grow.new-segment");
                        let last = infos.back().expect("segment");
                        if !(last.stack_bottom <= sp && sp < last.stack_top) {
                            grow_err(format!("level {level}: a new segment {last:?} was pushed but the callback runs at sp {sp:#x} outside it"));
                        }
                    }
                }
                let here = infos.iter().find(|i| i.stack_bottom <= sp && sp < i.stack_top);
                match here {
                    Some(seg) => {
                        // a page of tolerance for the frames between the check and here
                        if sp - seg.stack_bottom + 8192 < cfg.red {
                            grow_err(format!("level {level}: callback entered with {} bytes of stack left, requested red zone {}", sp - seg.stack_bottom, cfg.red));
                        }
                    }
                    None => grow_err(format!("level {level}: callback runs at sp {sp:#x}, outside every reported segment {infos:?}")),
                }
            }
        }
        match cfg.frame_kib {
            1 => frame1(depth - 1, level + 1, cfg),
            4 => frame4(depth - 1, level + 1, cfg),
            _ => frame16(depth - 1, level + 1, cfg),
        }
    });
    match r {
        Ok(v) => {
            if cfg.in_co {
                let after = SchedulableCoroutine::current().map(Coroutine::stack_infos);
                if before != after {
                    grow_err(format!("level {level}: stack segments before the call {before:?} != after it {after:?}"));
                }
            }
            v + 1
        }
        Err(e) => {
            grow_err(format!("level {level}: maybe_grow_with failed: {e}"));
            0
        }
    }
}

/// One recursion; returns Ok(levels) or Err(panic message)
fn recurse(depth: usize, cfg: GrowCfg) -> Result<usize, String> {
    let before = if cfg.in_co { SchedulableCoroutine::current().map(Coroutine::stack_infos) } else { None };
    let r = std::panic::catch_unwind(|| step(depth, 1, cfg));
    if cfg.in_co {
        let after = SchedulableCoroutine::current().map(Coroutine::stack_infos);
        if before != after {
            grow_err(format!("after the recursion ({}) the coroutine reports segments {after:?}, before it {before:?}", if r.is_ok() { "returned" } else { "unwound" }));
        }
    }
    r.map_err(|_| crate::child::last_panic())
}

fn grow_rounds(depth: usize, cfg: GrowCfg, rounds: usize) {
    for round in 0..rounds {
        // first with the panic (if any), then the same recursion without it: it must still work
        if cfg.panic_at != 0 && cfg.panic_at <= depth {
            match recurse(depth, cfg) {
                Err(m) if m.contains("grow: panic at level") => {}
                other => grow_err(format!("round {round}: expected the panic from level {} to reach the caller, got {other:?}", cfg.panic_at)),
            }
        }
        let clean = GrowCfg { panic_at: 0, ..cfg };
        match recurse(depth, clean) {
            Ok(v) => {
                // every level adds 1 for the call and 1 for its intact frame padding
                if v != 2 * depth {
                    grow_err(format!("round {round}: recursion of depth {depth} returned {v}, expected {}", 2 * depth));
                }
            }
            Err(m) => grow_err(format!("round {round}: recursion of depth {depth} after a caught panic failed: {m}")),
        }
    }
}

fn body_grow(plan: &J) {
    *GROW_ERR.lock().unwrap_or_else(|e| e.into_inner()) = None;
    let (red, size) = PAIRS[plan.gus("pair") % PAIRS.len()];
    let depth = plan.gus("depth").max(1);
    let in_co = plan.gs("where") == "coroutine";
    let cfg = GrowCfg {
        red,
        size,
        frame_kib: fitting_frame(plan.gus("pair"), plan.gus("frame")),
        panic_at: plan.gus("panic_at"),
        in_co,
    };
    let rounds = plan.gus("rounds").max(1);
    if in_co {
        let co = Coroutine::new(
            Some("grower".into()),
            move |_: &Suspender<'_, (), ()>, ()| {
                grow_rounds(depth, cfg, rounds);
                Some(1)
            },
            Some(64 * 1024),
            None,
        );
        let Ok(mut co) = co else {
            crate::child::harness_error("coroutine stack allocation failed".into());
        };
        match co.resume() {
            Ok(CoroutineState::Complete(Some(1))) => {}
            other => fail("grow-failed", format!("the coroutine doing the recursion ended with {other:?} ({})", crate::child::last_panic())),
        }
    } else {
        let h = vstd::thread::Builder::new().stack_size(192 * 1024).spawn(move || grow_rounds(depth, cfg, rounds));
        match h.map(vstd::thread::JoinHandle::join) {
            Ok(Ok(())) => {}
            _ => fail("grow-failed", format!("the thread doing the recursion died: {}", crate::child::last_panic())),
        }
    }
    if let Some(m) = GROW_ERR.lock().unwrap_or_else(|e| e.into_inner()).take() {
        fail("grow-bookkeeping", m);
    }
    note("depth", depth);
}

// ------------------------------------------------------------------------------------------------
// faults (C24)

pub static FAULTS: Scenario = Scenario {
    name: "faults",
    about: "a coroutine that, after k suspends and at recursion depth d, writes to address 1 / reads null / reads a wild address / faults on a grown segment / faults while on a foreign stack / recurses without bound, interleaved with 1-3 healthy coroutines on the same thread",
    gen: gen_faults,
    body: body_faults,
    key_probes: &[],
    wall_ms: 30_000,
    chunk: 1,
};

fn gen_faults(g: &mut Rng, _tier: Tier) -> J {
    obj! {
        "kind" => *g.pick(&["write1", "nullread", "wildread", "grown", "foreign", "recursion"]),
        "suspends" => g.below(5),
        "depth" => g.below(30),
        "healthy" => g.range(1, 3),
        "healthy_steps" => g.range(1, 5),
        "sim" => gen_sim(g, SimOpts { concurrent: false, max_points: 500_000, ..SimOpts::default() }),
    }
}

#[inline(never)]
fn dive(depth: usize, f: &dyn Fn()) -> usize {
    let mut pad = [0u8; 512];
    pad[depth % 512] = 1;
    std::hint::black_box(&mut pad);
    if depth == 0 {
        f();
        return 0;
    }
    dive(depth - 1, f) + usize::from(pad[depth % 512])
}

#[inline(never)]
#[allow(unconditional_recursion)]
fn forever(n: usize) -> usize {
    let mut pad = [0u8; 1024];
    pad[n % 1024] = n as u8;
    std::hint::black_box(&mut pad);
    forever(n + 1) + usize::from(pad[n % 1024])
}

fn do_fault(kind: &str) {
    unsafe {
        match kind {
            "write1" => std::ptr::write_volatile(1 as *mut u8, 7),
            "nullread" => {
                _ = std::ptr::read_volatile(std::ptr::null::<u8>());
            }
            "wildread" => {
                _ = std::ptr::read_volatile(0xdead_0000_0000usize as *const u8);
            }
            _ => {}
        }
    }
}

fn body_faults(plan: &J) {
    let kind = plan.gs("kind").to_string();
    let suspends = plan.gus("suspends");
    let depth = plan.gus("depth");
    let nh = plan.gus("healthy").clamp(1, 3);
    let hsteps = plan.gus("healthy_steps").max(1);
    let k2 = kind.clone();
    let faulty = Coroutine::new(
        Some("faulty".into()),
        move |s: &Suspender<'_, (), ()>, ()| {
            for _ in 0..suspends {
                s.suspend();
            }
            let k = k2.clone();
            match k.as_str() {
                "recursion" => Some(forever(0)),
                "grown" => {
                    // fault while executing on a grown segment
                    let r = SchedulableCoroutine::maybe_grow_with(60 * 1024, 64 * 1024, || dive(depth, &|| do_fault("nullread")));
                    Some(r.unwrap_or(0))
                }
                "foreign" => {
                    // fault while the stack pointer is on memory the coroutine does not own
                    let mut mem = vec![0u8; 128 * 1024];
                    let base = mem.as_mut_ptr();
                    let v = unsafe { psm::on_stack(base, 128 * 1024, || dive(depth.min(10), &|| do_fault("nullread"))) };
                    Some(v)
                }
                other => {
                    let o = other.to_string();
                    Some(dive(depth, &move || do_fault(&o)))
                }
            }
        },
        Some(64 * 1024),
        None,
    );
    let Ok(mut faulty) = faulty else {
        crate::child::harness_error("coroutine stack allocation failed".into());
    };
    let mut healthy = Vec::new();
    for i in 0..nh {
        let c = Coroutine::new(
            Some(format!("healthy-{i}")),
            move |s: &Suspender<'_, (), ()>, ()| {
                let mut acc = 0usize;
                for k in 0..hsteps {
                    acc += dive(5, &|| {}) + k;
                    s.suspend();
                }
                Some(1000 + i + acc * 0)
            },
            Some(64 * 1024),
            None,
        );
        match c {
            Ok(c) => healthy.push(c),
            Err(_) => crate::child::harness_error("coroutine stack allocation failed".into()),
        }
    }
    // interleave: one step of everybody per round
    let mut fault_result = None;
    for round in 0..(suspends + hsteps + 3) {
        if fault_result.is_none() {
            match faulty.resume() {
                Ok(CoroutineState::Suspend((), _)) => {}
                Ok(other) => fault_result = Some(other),
                Err(e) => fail("fault-resume-error", format!("round {round}: resuming the faulting coroutine failed: {e}")),
            }
        }
        for (i, h) in healthy.iter_mut().enumerate() {
            match h.resume() {
                Ok(CoroutineState::Suspend((), 0)) => {}
                Ok(CoroutineState::Complete(Some(v))) if v == 1000 + i => {}
                Ok(other) => fail("healthy-harmed", format!("healthy coroutine {i} was reported as {other:?} in round {round} (fault kind {kind})")),
                Err(e) => fail("healthy-harmed", format!("healthy coroutine {i} could not be resumed in round {round}: {e}")),
            }
        }
    }
    for (i, h) in healthy.iter().enumerate() {
        if h.state() != CoroutineState::Complete(Some(1000 + i)) {
            fail("healthy-harmed", format!("healthy coroutine {i} ended as {:?} (fault kind {kind})", h.state()));
        }
    }
    match fault_result {
        Some(CoroutineState::Error(m)) => {
            let want = match kind.as_str() {
                "foreign" => Some("stack overflow"),
                "recursion" => None, // the guard page's membership is left open
                _ => Some("invalid memory reference"),
            };
            if let Some(w) = want {
                if m != w {
                    fail("fault-message", format!("fault kind {kind}: the coroutine ended with Error({m:?}), expected {w:?}"));
                }
            } else if m != "stack overflow" && m != "invalid memory reference" {
                fail("fault-message", format!("unbounded recursion ended with Error({m:?})"));
            }
            probe("faults.contained");
        }
        other => fail("fault-not-contained", format!("fault kind {kind}: the faulting coroutine ended as {other:?}")),
    }
    note("kind", kind);
}
