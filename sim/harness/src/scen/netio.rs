//! S-N / readiness: C20 (readiness wakes exactly the waiting coroutine, promptly) and
//! C21 (OS readiness interest matches outstanding waits).
use super::hooks::{init_runtime, set_timeout, socketpair};
use super::{gen_sim, Scenario, SimOpts, Tier};
use crate::child::{fail, note, probe};
use crate::json::J;
use crate::obj;
use libc::c_int;
use open_coroutine_core::common::constants::{CoroutineState, SyscallState};
use open_coroutine_core::common::now;
use open_coroutine_core::coroutine::listener::Listener;
use open_coroutine_core::coroutine::local::CoroutineLocal;
use open_coroutine_core::net::EventLoops;
use open_coroutine_core::scheduler::{SchedulableCoroutine, SchedulableCoroutineState};
use open_coroutine_core::syscall as hk;
use std::sync::{Arc, Mutex as StdMutex};
use std::time::Duration;
use vstd::sim::{self, Rng};

pub static READY: Scenario = Scenario {
    name: "ready",
    about: "1-3 coroutine tasks on 1-2 event loops, each in a hooked recv (real kernel) on its own socketpair; the harness peer writes to one chosen descriptor at a generated instant inside the waiter's 10 ms slice",
    gen: gen_ready,
    body: body_ready,
    key_probes: &[],
    wall_ms: 30_000,
    chunk: 1,
};

fn gen_ready(g: &mut Rng, _tier: Tier) -> J {
    let n = g.range(1, 3);
    obj! {
        "waiters" => n,
        "loops" => g.range(1, 2),
        "target" => g.below(n),
        // when the peer writes, relative to the moment all waiters are blocked
        "write_after_us" => g.range(500, 48_000),
        "second_write" => g.chance(1, 3),
        // the target waits again on the same (still registered) descriptor after each delivery
        "rounds" => *g.pick(&[1u64, 1, 2, 3]),
        // single loop: between two rounds the target also waits (1 ms) for its descriptor to become writable,
        // so that the read interest has to survive a write interest being added next to it
        "write_between" => g.chance(1, 3),
        "sim" => gen_sim(g, SimOpts { max_points: 3_000_000, max_sim_ms: 30_000, timing: true, ..SimOpts::default() }),
    }
}

/// what the scheduler last did to each waiter's coroutine: (parked until, woken by callback?, when)
#[derive(Clone, Debug)]
struct Spy {
    log: Arc<StdMutex<Vec<(usize, SyscallState, u64)>>>,
    /// waiter -> name of the thread whose scheduler parked it last
    parked_by: Arc<StdMutex<Vec<(usize, String)>>>,
}

impl Listener<(), Option<usize>> for Spy {
    fn on_state_changed(&self, local: &CoroutineLocal, _: SchedulableCoroutineState, new: SchedulableCoroutineState) {
        if let (Some(i), CoroutineState::Syscall((), _, sub)) = (local.get::<usize>("waiter").copied(), new) {
            self.log.lock().unwrap_or_else(|e| e.into_inner()).push((i, sub, now()));
            if matches!(sub, SyscallState::Suspend(_)) {
                let mut p = self.parked_by.lock().unwrap_or_else(|e| e.into_inner());
                p.retain(|e| e.0 != i);
                p.push((i, std::thread::current().name().unwrap_or("?").to_string()));
            }
        }
    }
}

#[derive(Clone, Copy, Default, Debug)]
struct WaiterRec {
    started: Option<u64>,
    returned: Option<u64>,
    ret: isize,
    byte: u8,
    /// completed recv calls so far
    done: u64,
}

/// Root-cause probe: the descriptor's read interest is registered with the poller of one event loop
/// while the scheduler of another loop's thread holds the parked coroutine (it moved between two
/// waits of the same hooked call), so the readiness event is delivered where nobody can resume it.
fn note_registration(spy: &Spy, waiter: usize, fd: c_int) {
    let regs = pollers_with(fd);
    let parked = spy.parked_by.lock().unwrap_or_else(|e| e.into_inner()).iter().find(|e| e.0 == waiter).map(|e| e.1.clone());
    let Some(parked) = parked else { return };
    if regs.is_empty() {
        sim::count("cause.net.no-registration");
        return;
    }
    let owners: Vec<String> = regs.iter().filter_map(|id| mio::vsim_poller_thread(*id)).collect();
    note("registered_with", format!("{owners:?}"));
    note("parked_by", parked.clone());
    if !owners.is_empty() && !owners.contains(&parked) {
        sim::count("cause.net.parked-away-from-registration");
    }
}

/// ids of the pollers whose epoll instance has `fd` registered for reading
fn pollers_with(fd: c_int) -> Vec<usize> {
    let mut out = Vec::new();
    for (id, epfd) in mio::vsim_pollers() {
        let Ok(s) = std::fs::read_to_string(format!("/proc/self/fdinfo/{epfd}")) else { continue };
        for line in s.lines() {
            let mut it = line.split_whitespace();
            if it.next() != Some("tfd:") {
                continue;
            }
            if it.next().and_then(|x| x.parse::<c_int>().ok()) != Some(fd) {
                continue;
            }
            if it.next() != Some("events:") {
                continue;
            }
            let ev = it.next().and_then(|x| u32::from_str_radix(x, 16).ok()).unwrap_or(0);
            if ev & 0x1 != 0 {
                out.push(id);
            }
        }
    }
    out
}

fn body_ready(plan: &J) {
    let n = plan.gus("waiters").clamp(1, 3);
    let loops = plan.gus("loops").clamp(1, 2);
    init_runtime(loops, 0, 65536);
    if loops as u64 > sim::knob("num_cpus", 16) {
        // the global queue has one "thread-exclusive" local queue per CPU and hands them out round
        // robin: with more schedulers than CPUs two event loops share one local queue
        sim::count("cause.rt.loops-exceed-cpus");
    }
    let spy = Spy { log: Arc::new(StdMutex::new(Vec::new())), parked_by: Arc::new(StdMutex::new(Vec::new())) };
    EventLoops::verif_add_listener(spy.clone());
    let recs: Arc<StdMutex<Vec<WaiterRec>>> = Arc::new(StdMutex::new(vec![WaiterRec::default(); n]));
    let mut socks = Vec::new();
    let mut handles = Vec::new();
    for i in 0..n {
        let (fd, peer) = socketpair();
        set_timeout(fd, libc::SO_RCVTIMEO, 400);
        socks.push((fd, peer));
        let r = recs.clone();
        let my_rounds = if i == plan.gus("target") % n { plan.gu("rounds").clamp(1, 3) } else { 1 };
        let write_between = plan.gb("write_between") && loops == 1;
        handles.push(EventLoops::submit_task(
            Some(format!("waiter-{i}")),
            move |_| {
                if let Some(co) = SchedulableCoroutine::current() {
                    _ = co.put("waiter", i);
                }
                r.lock().unwrap_or_else(|e| e.into_inner())[i].started = Some(now());
                for _ in 0..my_rounds {
                    let mut b = [0u8; 4];
                    let got = hk::recv(None, fd, b.as_mut_ptr().cast(), 1, 0);
                    let mut g = r.lock().unwrap_or_else(|e| e.into_inner());
                    g[i].returned = Some(now());
                    g[i].ret = got;
                    g[i].byte = b[0];
                    g[i].done += 1;
                    if got != 1 {
                        break;
                    }
                    if write_between && g[i].done < my_rounds {
                        drop(g);
                        probe("ready.write-wait-between");
                        _ = EventLoops::wait_write_event(fd, Some(Duration::from_millis(1)));
                    }
                }
                Some(i)
            },
            None,
            None,
        ));
    }
    // wait until every waiter has entered its recv (plus two slices so that each is parked)
    let t_begin = now();
    loop {
        vstd::thread::sleep(Duration::from_millis(1));
        let all = recs.lock().unwrap_or_else(|e| e.into_inner()).iter().all(|w| w.started.is_some());
        if all || now() - t_begin > 2_000_000_000 {
            break;
        }
    }
    vstd::thread::sleep(Duration::from_millis(25));
    vstd::thread::sleep(Duration::from_micros(plan.gu("write_after_us")));
    let target = plan.gus("target") % n;
    // write while the target is parked and its own wait timeout is still at least 3 ms away, so
    // that only the readiness event can explain a prompt wake-up
    let mut tries = 0;
    loop {
        let last = spy.log.lock().unwrap_or_else(|e| e.into_inner()).iter().rev().find(|e| e.0 == target).cloned();
        if let Some((_, SyscallState::Suspend(ts), _)) = last {
            if ts > now() + 3_000_000 && ts != u64::MAX {
                break;
            }
        }
        tries += 1;
        if tries > 400 {
            return; // never observed parked with room to spare: nothing to decide in this run
        }
        vstd::thread::sleep(Duration::from_micros(500));
    }
    vstd::thread::sleep(Duration::from_micros(200 + plan.gu("write_after_us") % 1_500));
    if recs.lock().unwrap_or_else(|e| e.into_inner())[target].returned.is_some() {
        return; // already gone (cannot happen with a 400 ms timeout, but be safe)
    }
    note_registration(&spy, target, socks[target].0);
    let payload = [0x40u8 + target as u8];
    sim::point("harness.peer-write");
    let t1 = now();
    let w = unsafe { libc::write(socks[target].1, payload.as_ptr().cast(), 1) };
    if w != 1 {
        crate::child::harness_error("peer write failed".into());
    }
    mio::vsim_check_ready();
    sim::count("kern.readiness");
    // the addressed coroutine must be resumed by the readiness event, not by its 10 ms slice
    vstd::thread::sleep(Duration::from_millis(1));
    let snap = recs.lock().unwrap_or_else(|e| e.into_inner()).clone();
    note("write_offset_us", (t1 - t_begin) / 1000);
    match snap[target].returned {
        Some(t) if t <= t1 + 1_000_000 => {
            note("wake_latency_us", (t - t1) / 1000);
            if snap[target].ret != 1 || snap[target].byte != payload[0] {
                fail("wrong-data", format!("waiter {target} returned {} with byte {:#x}, the peer wrote {:#x}", snap[target].ret, snap[target].byte, payload[0]));
            }
            probe("ready.prompt");
            let woke = spy.log.lock().unwrap_or_else(|e| e.into_inner()).iter().find(|e| e.0 == target && e.2 >= t1 && !matches!(e.1, SyscallState::Suspend(_))).cloned();
            if let Some((_, sub, _)) = woke {
                if sub == SyscallState::Timeout {
                    fail("wake-late", format!("waiter {target} was resumed by its wait timeout, not by the readiness event, although the timeout was still more than a millisecond away"));
                }
            }
        }
        _ => {
            // how long does it really take?
            let mut waited = 1u64;
            while recs.lock().unwrap_or_else(|e| e.into_inner())[target].returned.is_none() && waited < 400 {
                vstd::thread::sleep(Duration::from_millis(1));
                waited += 1;
            }
            let ret = recs.lock().unwrap_or_else(|e| e.into_inner())[target].returned;
            fail(
                "wake-late",
                format!(
                    "the peer wrote to waiter {target}'s socket at t1; 1 ms later the coroutine was still parked in its hooked recv; it returned {} after the write (readiness is noticed on the 10 ms slice, not on the event)",
                    ret.map_or("never".to_string(), |t| format!("{} us", (t - t1) / 1000))
                ),
            );
        }
    }
    // nobody else may be released by that event
    for (i, w) in snap.iter().enumerate() {
        if i != target && w.returned.is_some() {
            fail("wrong-waiter-woken", format!("the peer wrote only to waiter {target}'s socket, but waiter {i} (another descriptor) returned from its recv with {}", w.ret));
        }
    }
    // ---- later rounds: the target waits again on its (still registered) descriptor
    for round in 1..plan.gu("rounds").clamp(1, 3) {
        let done_before = recs.lock().unwrap_or_else(|e| e.into_inner())[target].done;
        if done_before != round {
            break;
        }
        // parked again, with at least 3 ms of its slice left
        let mut tries = 0;
        let parked = loop {
            let last = spy.log.lock().unwrap_or_else(|e| e.into_inner()).iter().rev().find(|e| e.0 == target).cloned();
            if let Some((_, SyscallState::Suspend(ts), _)) = last {
                if ts > now() + 3_000_000 && ts != u64::MAX {
                    break true;
                }
            }
            tries += 1;
            if tries > 400 {
                break false;
            }
            vstd::thread::sleep(Duration::from_micros(500));
        };
        if !parked || recs.lock().unwrap_or_else(|e| e.into_inner())[target].done != round {
            break;
        }
        note_registration(&spy, target, socks[target].0);
        let pr = [0x50u8 + round as u8];
        sim::point("harness.peer-write");
        let tw = now();
        _ = unsafe { libc::write(socks[target].1, pr.as_ptr().cast(), 1) };
        mio::vsim_check_ready();
        sim::count("kern.readiness");
        vstd::thread::sleep(Duration::from_millis(1));
        let sn = recs.lock().unwrap_or_else(|e| e.into_inner())[target];
        if sn.done == round + 1 && sn.returned.is_some_and(|t| t <= tw + 1_000_000) && sn.byte == pr[0] {
            probe("ready.prompt-again");
        } else {
            let mut waited = 1u64;
            while recs.lock().unwrap_or_else(|e| e.into_inner())[target].done == round && waited < 400 {
                vstd::thread::sleep(Duration::from_millis(1));
                waited += 1;
            }
            let sn = recs.lock().unwrap_or_else(|e| e.into_inner())[target];
            fail(
                "wake-late",
                format!(
                    "round {round}: the peer wrote again to waiter {target}'s socket while the coroutine was parked in its next hooked recv on the same descriptor; 1 ms later it was still parked; it returned {} after the write (the readiness event did not resume it)",
                    if sn.done > round { format!("{} us", sn.returned.unwrap_or(tw).saturating_sub(tw) / 1000) } else { "never".to_string() }
                ),
            );
        }
    }
    if plan.gb("second_write") && n > 1 {
        // a second event for another descriptor, same check
        let t2i = (target + 1) % n;
        let p2 = [0x60u8 + t2i as u8];
        note_registration(&spy, t2i, socks[t2i].0);
        let t2 = now();
        _ = unsafe { libc::write(socks[t2i].1, p2.as_ptr().cast(), 1) };
        mio::vsim_check_ready();
        vstd::thread::sleep(Duration::from_millis(1));
        let s2 = recs.lock().unwrap_or_else(|e| e.into_inner()).clone();
        match s2[t2i].returned {
            Some(t) if t <= t2 + 1_000_000 && s2[t2i].byte == p2[0] => probe("ready.prompt-second"),
            Some(_) => fail("wake-late", format!("second write: waiter {t2i} returned late or with the wrong byte {:#x}", s2[t2i].byte)),
            None => fail("wake-late", format!("second write: waiter {t2i} still parked 1 ms after its socket became readable")),
        }
    }
    for h in handles {
        _ = h.timeout_join(Duration::from_millis(600));
    }
    for (a, b) in socks {
        unsafe {
            _ = libc::close(a);
            _ = libc::close(b);
        }
    }
}

// ------------------------------------------------------------------------------------------------
// interest (C21)

pub static INTEREST: Scenario = Scenario {
    name: "interest",
    about: "histories over <=3 socketpair descriptors: wait for read / write readiness, remove read / write / both, hooked shutdown and close (+ descriptor-number reuse), peer writes; after every operation the epoll instance's registered interest (from /proc/self/fdinfo) must equal the outstanding interests",
    gen: gen_interest,
    body: body_interest,
    key_probes: &["int.both", "int.reuse", "int.del-one-of-two"],
    wall_ms: 30_000,
    chunk: 1,
};

fn gen_interest(g: &mut Rng, tier: Tier) -> J {
    let n = g.range(2, if tier == Tier::Quick { 15 } else { 30 });
    let mut ops = vec![J::Arr(vec!["open".into(), 0u64.into()])];
    for _ in 0..n {
        let s = g.below(3);
        match g.below(14) {
            0 => ops.push(J::Arr(vec!["open".into(), s.into()])),
            1..=3 => ops.push(J::Arr(vec!["wait_read".into(), s.into()])),
            4..=6 => ops.push(J::Arr(vec!["wait_write".into(), s.into()])),
            7 => ops.push(J::Arr(vec!["del_read".into(), s.into()])),
            8 => ops.push(J::Arr(vec!["del_write".into(), s.into()])),
            9 => ops.push(J::Arr(vec!["del".into(), s.into()])),
            10 => ops.push(J::Arr(vec!["shutdown".into(), s.into(), g.below(3).into()])),
            11 => ops.push(J::Arr(vec!["peer_write".into(), s.into()])),
            _ => ops.push(J::Arr(vec!["close".into(), s.into()])),
        }
    }
    obj! {
        "ops" => J::Arr(ops),
        "caller" => if g.chance(1, 3) { "coroutine" } else { "thread" },
        "sim" => gen_sim(g, SimOpts { max_points: 2_000_000, max_sim_ms: 60_000, ..SimOpts::default() }),
    }
}

/// (EPOLLIN registered, EPOLLOUT registered) for `fd` in any of the process's pollers, from fdinfo.
fn os_interest(fd: c_int) -> (bool, bool) {
    let (mut r, mut w) = (false, false);
    for (_, epfd) in mio::vsim_pollers() {
        let Ok(s) = std::fs::read_to_string(format!("/proc/self/fdinfo/{epfd}")) else { continue };
        for line in s.lines() {
            // tfd:        7 events: 80002019 data: ...
            let mut it = line.split_whitespace();
            if it.next() != Some("tfd:") {
                continue;
            }
            let Some(t) = it.next().and_then(|x| x.parse::<c_int>().ok()) else { continue };
            if t != fd {
                continue;
            }
            if it.next() != Some("events:") {
                continue;
            }
            let ev = it.next().and_then(|x| u32::from_str_radix(x, 16).ok()).unwrap_or(0);
            r |= ev & 0x1 != 0;
            w |= ev & 0x4 != 0;
        }
    }
    (r, w)
}

fn interest_ops(ops: &[J]) {
    let mut slots: [Option<(c_int, c_int)>; 3] = [None, None, None];
    let mut want: [(bool, bool); 3] = [(false, false); 3];
    let mut closed: Vec<c_int> = Vec::new();
    for (oi, op) in ops.iter().enumerate() {
        let a = op.arr();
        let s = a.get(1).map_or(0, J::us) % 3;
        let kind = a[0].s();
        match kind {
            "open" => {
                if slots[s].is_none() {
                    let p = socketpair();
                    if closed.contains(&p.0) {
                        probe("int.reuse");
                    }
                    slots[s] = Some(p);
                    want[s] = (false, false);
                }
            }
            "wait_read" => {
                if let Some((fd, _)) = slots[s] {
                    _ = EventLoops::wait_read_event(fd, Some(Duration::ZERO));
                    want[s].0 = true;
                }
            }
            "wait_write" => {
                if let Some((fd, _)) = slots[s] {
                    _ = EventLoops::wait_write_event(fd, Some(Duration::ZERO));
                    want[s].1 = true;
                }
            }
            "del_read" => {
                if let Some((fd, _)) = slots[s] {
                    if want[s] == (true, true) {
                        probe("int.del-one-of-two");
                    }
                    _ = EventLoops::del_read_event(fd);
                    want[s].0 = false;
                }
            }
            "del_write" => {
                if let Some((fd, _)) = slots[s] {
                    if want[s] == (true, true) {
                        probe("int.del-one-of-two");
                    }
                    _ = EventLoops::del_write_event(fd);
                    want[s].1 = false;
                }
            }
            "del" => {
                if let Some((fd, _)) = slots[s] {
                    _ = EventLoops::del_event(fd);
                    want[s] = (false, false);
                }
            }
            "shutdown" => {
                if let Some((fd, _)) = slots[s] {
                    let how = [libc::SHUT_RD, libc::SHUT_WR, libc::SHUT_RDWR][a[2].us() % 3];
                    _ = hk::shutdown(None, fd, how);
                    match how {
                        libc::SHUT_RD => want[s].0 = false,
                        libc::SHUT_WR => want[s].1 = false,
                        _ => want[s] = (false, false),
                    }
                }
            }
            "peer_write" => {
                if let Some((_, peer)) = slots[s] {
                    let b = [1u8];
                    _ = unsafe { libc::write(peer, b.as_ptr().cast(), 1) };
                    mio::vsim_check_ready();
                    vstd::thread::sleep(Duration::from_millis(12));
                }
            }
            "close" => {
                if let Some((fd, peer)) = slots[s].take() {
                    _ = hk::close(None, fd);
                    unsafe {
                        _ = libc::close(peer);
                    }
                    closed.push(fd);
                    want[s] = (false, false);
                }
            }
            _ => {}
        }
        // after every operation: OS interest == outstanding interests, for every live descriptor
        for (si, sl) in slots.iter().enumerate() {
            let Some((fd, _)) = sl else { continue };
            let got = os_interest(*fd);
            if want[si] == (true, true) {
                probe("int.both");
            }
            if got != want[si] {
                fail(
                    "interest-mismatch",
                    format!(
                        "after op {oi} ({kind} on slot {s}): descriptor {fd} (slot {si}) is registered with the OS for (read, write) = {got:?}, the outstanding interests are {:?}",
                        want[si]
                    ),
                );
            }
        }
    }
    for s in slots.iter().flatten() {
        _ = hk::close(None, s.0);
        unsafe {
            _ = libc::close(s.1);
        }
    }
}

fn body_interest(plan: &J) {
    init_runtime(1, 0, 8);
    let ops: Vec<J> = plan.ga("ops").to_vec();
    if plan.gs("caller") == "coroutine" {
        let h = EventLoops::submit_task(
            Some("interest-task".into()),
            move |_| {
                interest_ops(&ops);
                Some(1)
            },
            None,
            None,
        );
        match h.timeout_join(Duration::from_secs(50)) {
            Ok(Ok(_)) => {}
            other => fail("hook-call-lost", format!("the task running the interest history did not complete: {other:?}; {}", crate::child::last_panic())),
        }
    } else {
        interest_ops(&ops);
    }
    note("ops", plan.ga("ops").len());
}
