//! Scenario registry and helpers shared by all scenario families.
use crate::json::J;
use crate::obj;
use vstd::sim::Rng;

pub mod beans;
pub mod coroutine;
pub mod hooks;
pub mod netio;
#[cfg(feature = "preemptive")]
pub mod preempt;
pub mod stack;
pub mod timehelp;
#[cfg(feature = "io_uring")]
pub mod uring;
pub mod queues;
pub mod sched;
pub mod tasks;

#[derive(Clone, Copy, Debug, PartialEq, Eq)]
pub enum Tier {
    Quick,
    Thorough,
}

pub struct Scenario {
    pub name: &'static str,
    pub about: &'static str,
    /// explicit plan (workload + sim configuration) from the workload stream
    pub gen: fn(&mut Rng, Tier) -> J,
    /// runs inside the child under the simulator; calls child::fail on a violation
    pub body: fn(&J),
    /// a run counts as non-trivial only if one of these probes fired (empty: always)
    pub key_probes: &'static [&'static str],
    /// real-time watchdog per run
    pub wall_ms: i32,
    /// runs executed one after the other in one child process (1 for scenarios that touch
    /// process-wide runtime state)
    pub chunk: u32,
}

pub fn all() -> Vec<&'static Scenario> {
    let mut v: Vec<&'static Scenario> = Vec::new();
    v.extend(queues::SCENARIOS.iter());
    v.extend(coroutine::SCENARIOS.iter());
    v.push(&coroutine::LOCAL_SCENARIO);
    v.push(&beans::SCENARIO);
    v.push(&sched::SCENARIO);
    v.push(&tasks::POOL);
    v.push(&tasks::POOL_PRIO);
    v.push(&tasks::RT);
    v.push(&hooks::SOCKIO);
    v.push(&hooks::SOCKOPT);
    v.push(&hooks::CONNIO);
    v.push(&hooks::TIMED);
    v.push(&hooks::SLEEPERS);
    v.push(&netio::READY);
    v.push(&netio::INTEREST);
    v.push(&stack::GROW);
    v.push(&stack::FAULTS);
    v.push(&timehelp::TIMEHELP);
    #[cfg(feature = "preemptive")]
    v.push(&preempt::PREEMPT);
    #[cfg(feature = "io_uring")]
    v.push(&uring::URING);
    v
}

pub fn find(name: &str) -> Option<&'static Scenario> {
    all().into_iter().find(|s| s.name == name)
}

#[derive(Clone, Copy)]
pub struct SimOpts {
    /// concurrent scenario: draw a switching strategy; otherwise a single thread runs
    pub concurrent: bool,
    pub max_points: u64,
    pub max_sim_ms: u64,
    pub stall: bool,
    pub spurious: bool,
    pub late_signals: bool,
    /// the scenario has upper bounds on elapsed simulated time: only strategies under which a
    /// runnable thread is scheduled promptly (the simulator must not be the one that starves it),
    /// and a small time charge per scheduling point
    pub timing: bool,
}

impl Default for SimOpts {
    fn default() -> Self {
        SimOpts {
            concurrent: true,
            max_points: 2_000_000,
            max_sim_ms: 120_000,
            stall: false,
            spurious: false,
            late_signals: false,
            timing: false,
        }
    }
}

/// The "sim" section of a plan: strategy, time charge, fault rates, knobs (swarm: varied per run).
pub fn gen_sim(g: &mut Rng, o: SimOpts) -> J {
    let mut s = obj! {};
    if o.timing {
        // tells the minimiser to leave the strategy alone
        s.set("timing", true.into());
    }
    if o.concurrent && o.timing {
        if g.chance(1, 2) {
            s.set("strategy", "sticky".into());
            s.set("p_ppm", (*g.pick(&[250_000u64, 500_000, 800_000])).into());
        } else {
            s.set("strategy", "rr".into());
            s.set("q", (*g.pick(&[1u64, 2, 3, 5, 8])).into());
        }
    } else if o.concurrent {
        match g.below(10) {
            0..=5 => {
                s.set("strategy", "sticky".into());
                s.set("p_ppm", (*g.pick(&[5_000u64, 20_000, 50_000, 100_000, 250_000, 500_000])).into());
            }
            6..=8 => {
                s.set("strategy", "pct".into());
                s.set("depth", g.range(1, 3).into());
                s.set("est_len", (*g.pick(&[200u64, 1_000, 5_000, 20_000])).into());
            }
            _ => {
                s.set("strategy", "rr".into());
                s.set("q", (*g.pick(&[1u64, 2, 3, 5, 8, 13, 40])).into());
            }
        }
    } else {
        s.set("strategy", "sticky".into());
        s.set("p_ppm", 0u64.into());
    }
    s.set("delta_ns", (*g.pick(if o.timing { &[100u64, 1_000, 1_000, 1_000, 1_000] } else { &[100u64, 1_000, 1_000, 1_000, 10_000] })).into());
    s.set("max_points", o.max_points.into());
    s.set("max_sim_ms", o.max_sim_ms.into());
    if o.stall && g.chance(1, 3) {
        s.set("stall_ppm", (*g.pick(&[50u64, 200, 1_000])).into());
        s.set("stall_max_ns", (*g.pick(&[2_000_000u64, 20_000_000, 50_000_000])).into());
    }
    if o.spurious && g.chance(1, 3) {
        s.set("spurious_ppm", (*g.pick(&[10_000u64, 100_000, 300_000])).into());
    }
    if o.late_signals && g.chance(1, 2) {
        s.set("sig_delay_max", (*g.pick(&[1u64, 3, 10, 40])).into());
    }
    s.set(
        "knobs",
        obj! {
            "num_cpus" => g.range(1, 4),
            "dashmap.shards" => *g.pick(&[1u64, 2, 4, 4, 16, 64]),
            // an overflowing local queue hands coroutines to the shared queue, which is only looked at
            // every 61st pop while local work exists: fine for safety properties, but it is a load
            // effect that the timing scenarios (a handful of coroutines) must not fake
            "queue.local_capacity" => *g.pick(if o.timing { &[64u64, 64, 256, 256, 256, 256, 256, 256] } else { &[1u64, 2, 3, 4, 8, 16, 64, 256] }),
        },
    );
    s
}

/// One local queue per scheduler: the global queue creates `num_cpus` "thread-exclusive" local queues
/// and hands them out round robin, so with fewer CPUs than schedulers two schedulers share one
/// (recorded as a known finding under C20). Scenarios that are about something else call this.
pub fn ensure_cpus(sim: &mut J, schedulers: u64) {
    if let Some(k) = sim.get_mut("knobs") {
        let have = k.gu("num_cpus");
        k.set("num_cpus", have.max(schedulers).into());
    }
}

/// Structural shrink candidates: every array outside "sim" loses a half or one element; the
/// candidates are ordered from most to least aggressive.
pub fn shrink_candidates(plan: &J) -> Vec<J> {
    let mut out = Vec::new();
    let mut paths = Vec::new();
    collect_arrays(plan, &mut Vec::new(), &mut paths);
    // larger arrays first
    paths.sort_by_key(|(_, n)| std::cmp::Reverse(*n));
    for (path, n) in &paths {
        if *n >= 4 {
            out.push(remove_range(plan, path, 0, n / 2));
            out.push(remove_range(plan, path, n / 2, *n));
        }
        if *n >= 8 {
            out.push(remove_range(plan, path, n / 4, n / 2));
            out.push(remove_range(plan, path, n / 2, 3 * n / 4));
        }
    }
    for (path, n) in &paths {
        let step = (*n / 40).max(1);
        let mut i = *n;
        while i > 0 {
            i = i.saturating_sub(step);
            out.push(remove_range(plan, path, i, (i + 1).min(*n)));
            if i == 0 {
                break;
            }
        }
    }
    out
}

#[derive(Clone, Debug)]
enum Seg {
    K(String),
    I(usize),
}

fn collect_arrays(j: &J, cur: &mut Vec<Seg>, out: &mut Vec<(Vec<Seg>, usize)>) {
    match j {
        J::Obj(v) => {
            for (k, x) in v {
                if k == "sim" {
                    continue;
                }
                cur.push(Seg::K(k.clone()));
                collect_arrays(x, cur, out);
                _ = cur.pop();
            }
        }
        J::Arr(v) => {
            // arrays of scalars that look like a single op ("tuple") are not shrunk element-wise
            let tuple_like = !v.is_empty() && matches!(v[0], J::Str(_)) && v.len() <= 8;
            if !v.is_empty() && !tuple_like {
                out.push((cur.clone(), v.len()));
            }
            for (i, x) in v.iter().enumerate() {
                cur.push(Seg::I(i));
                collect_arrays(x, cur, out);
                _ = cur.pop();
            }
        }
        _ => {}
    }
}

fn remove_range(plan: &J, path: &[Seg], from: usize, to: usize) -> J {
    let mut p = plan.clone();
    {
        let mut cur = &mut p;
        for s in path {
            cur = match (s, cur) {
                (Seg::K(k), J::Obj(v)) => &mut v.iter_mut().find(|(kk, _)| kk == k).expect("path").1,
                (Seg::I(i), J::Arr(v)) => &mut v[*i],
                _ => unreachable!("bad path"),
            };
        }
        if let J::Arr(v) = cur {
            _ = v.drain(from..to.min(v.len()));
        }
    }
    p
}

/// FNV-1a of the plan without its "sim" section: the workload fingerprint.
pub fn workload_fp(plan: &J) -> u64 {
    let mut p = plan.clone();
    if let J::Obj(v) = &mut p {
        v.retain(|(k, _)| k != "sim");
    }
    let s = p.to_string();
    let mut h = 0xcbf2_9ce4_8422_2325u64;
    for b in s.as_bytes() {
        h ^= u64::from(*b);
        h = h.wrapping_mul(0x0000_0100_0000_01B3);
    }
    h
}
