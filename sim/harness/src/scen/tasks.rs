//! S-P (one CoroutinePool driven by an owner thread) and S-R (the whole runtime: EventLoops with k
//! event-loop threads), sharing one task/actor/oracle machinery.
//! Decides C01, C02, C11, C12, C13, C15 and the pool clause of C05.
use super::{gen_sim, Scenario, SimOpts, Tier};
use crate::child::{fail, note, probe};
use crate::json::J;
use crate::obj;
use open_coroutine_core::co_pool::CoroutinePool;
use open_coroutine_core::common::constants::PoolState;
use open_coroutine_core::common::now;
use open_coroutine_core::scheduler::SchedulableSuspender;
use std::hash::{DefaultHasher, Hash, Hasher};
use std::sync::Mutex as StdMutex;
use std::time::Duration;
use vstd::sim::{self, Rng};

pub static POOL: Scenario = Scenario {
    name: "pool",
    about: "one CoroutinePool: an owner thread runs scheduling passes and finally stop(); 1-3 user threads submit / wait / cancel; generated task programs, priorities, min/max/keep-alive",
    gen: gen_pool,
    body: body_pool,
    key_probes: &["task.suspend", "task.cancel", "task.wait-blocked", "task.panic", "pool.concurrent"],
    wall_ms: 30_000,
    chunk: 1,
};

pub static POOL_PRIO: Scenario = Scenario {
    name: "pool_prio",
    about: "pool with a single worker: 1-12 tasks with tied/extreme priorities all queued before the first pass; start order must be priority order, FIFO among equals",
    gen: gen_pool_prio,
    body: body_pool,
    key_probes: &["pool.priority-order"],
    wall_ms: 30_000,
    chunk: 1,
};

fn gen_pool_prio(g: &mut Rng, _tier: Tier) -> J {
    let ntasks = g.range(2, 12) as usize;
    let mut tasks = Vec::new();
    let mut ops = Vec::new();
    for i in 0..ntasks {
        tasks.push(obj! {
            "name" => format!("task-{i}"),
            "steps" => J::Arr(vec![]),
            "panics" => g.chance(1, 10),
            "prio" => *g.pick(&[i64::MIN, -2, -1, 0, 0, 0, 1, 2, i64::MAX]),
        });
        ops.push(J::Arr(vec!["submit".into(), i.into()]));
    }
    for i in 0..ntasks {
        if g.chance(1, 3) {
            ops.push(J::Arr(vec!["wait".into(), i.into(), (*g.pick(&[5_000u64, u64::MAX])).into()]));
        }
    }
    let mut sim = gen_sim(g, SimOpts { max_points: 2_000_000, max_sim_ms: 100_000, ..SimOpts::default() });
    if let Some(k) = sim.get_mut("knobs") {
        k.set("queue.local_capacity", (*g.pick(&[16u64, 64, 256])).into());
    }
    obj! {
        "min" => 0, "max" => 1, "keep_alive_ns" => 0u64, "ordered_mode" => true,
        "tasks" => J::Arr(tasks), "users" => J::Arr(vec![J::Arr(ops)]),
        "pass_budget_ns" => 10_000_000u64, "pass_gap_ns" => 0u64, "late_submit" => false,
        "sim" => sim,
    }
}

pub const SLACK_NS: u64 = 100_000_000;
/// added to every lateness bound of a run whose plan injects stall faults: a stalled thread (the one
/// that notifies, the one that is notified) is late by up to the stall length, and that is the fault,
/// not the runtime
static STALL_SLACK_NS: std::sync::atomic::AtomicU64 = std::sync::atomic::AtomicU64::new(0);

fn slack_ns() -> u64 {
    SLACK_NS + STALL_SLACK_NS.load(std::sync::atomic::Ordering::SeqCst)
}

fn set_stall_slack(plan: &J) {
    let mut extra = plan.get("sim").map_or(0, |s| if s.gu("stall_ppm") > 0 { 3 * s.gu("stall_max_ns") } else { 0 });
    // the PCT strategy may keep a runnable thread waiting for up to 30 000 scheduling points (the
    // engine's aging limit): that much lateness is the simulator's, twice over (notifier and notified)
    if plan.get("sim").is_some_and(|s| s.gs("strategy") == "pct") {
        extra += 2 * 30_000 * plan.get("sim").map_or(1_000, |s| s.gu("delta_ns").max(1));
    }
    STALL_SLACK_NS.store(extra, std::sync::atomic::Ordering::SeqCst);
}

#[derive(Clone, Debug, Default)]
pub struct TaskRec {
    pub name: String,
    pub id: u64,
    pub prio: i64,
    pub submit_ok: Option<bool>,
    pub submit_began_after_stop_seen: bool,
    pub starts: u32,
    pub start_seq: u64,
    pub start_ns: u64,
    pub end_ns: Option<u64>,
    pub finished: bool,
    pub panics: bool,
    pub value: usize,
    pub ran_on: usize,
    /// a cancel call for this task returned while it certainly had not been taken from the queue
    pub cancelled_unstarted: bool,
    pub cancel_calls: u32,
    pub cancelled_any: bool,
    pub start_order: u64,
    /// scheduling passes begun when submit returned
    pub submitted_epoch: u64,
    /// index of the event loop the join handle waits on (rt scenario)
    pub handle_loop: usize,
    /// submit returned Ok before anybody asked for a stop
    pub accepted_before_stop: bool,
}

pub static RECS: StdMutex<Vec<TaskRec>> = StdMutex::new(Vec::new());
static START_COUNTER: StdMutex<u64> = StdMutex::new(0);
/// owner thread is inside a scheduling pass (pool scenario)
static IN_PASS: std::sync::atomic::AtomicBool = std::sync::atomic::AtomicBool::new(false);
static STOP_SEEN: std::sync::atomic::AtomicBool = std::sync::atomic::AtomicBool::new(false);
static PASS_EPOCH: std::sync::atomic::AtomicU64 = std::sync::atomic::AtomicU64::new(0);

pub fn recs() -> std::sync::MutexGuard<'static, Vec<TaskRec>> {
    RECS.lock().unwrap_or_else(|e| e.into_inner())
}

pub fn task_id_of(name: &str) -> u64 {
    let mut h = DefaultHasher::new();
    name.to_string().hash(&mut h);
    h.finish()
}

/// The program of one task, interpreted inside the task body.
/// bumped whenever a task body starts, completes a step or ends: lets the quiet-period oracles tell a
/// slow runtime (still making progress) from a stuck one
pub static PROGRESS: std::sync::atomic::AtomicU64 = std::sync::atomic::AtomicU64::new(0);

pub fn run_prog(i: usize, steps: &[J]) {
    for st in steps {
        _ = PROGRESS.fetch_add(1, std::sync::atomic::Ordering::SeqCst);
        let a = st.arr();
        match a[0].s() {
            "suspend" => {
                if let Some(s) = SchedulableSuspender::current() {
                    probe("task.suspend");
                    s.suspend();
                }
            }
            "delay" => {
                if let Some(s) = SchedulableSuspender::current() {
                    probe("task.suspend");
                    let want = now().saturating_add(a[1].u());
                    s.delay(Duration::from_nanos(a[1].u()));
                    let t = now();
                    if t < want {
                        fail("resumed-early", format!("task {i} asked to sleep until {want} but continued at {t}"));
                    }
                }
            }
            "work" => sim::cpu_work(a[1].u(), 200_000),
            "hsleep" => hooked_sleep_us(a[1].u()),
            // a task that submits tasks itself (from inside an event loop): rt scenario only
            "spawn" => {
                for _ in 0..a[1].u() {
                    spawn_child();
                }
            }
            _ => {}
        }
    }
}

/// children submitted by task bodies: CHILD_RUNS[k] = how often child k ran
static CHILD_RUNS: StdMutex<Vec<u32>> = StdMutex::new(Vec::new());
/// child k was accepted (submit returned a valid handle) before anybody asked for a stop
static CHILD_MUST: StdMutex<Vec<bool>> = StdMutex::new(Vec::new());
static RT_ACTIVE: std::sync::atomic::AtomicBool = std::sync::atomic::AtomicBool::new(false);

fn spawn_child() {
    use std::sync::atomic::Ordering::SeqCst;
    if !RT_ACTIVE.load(SeqCst) || STOP_SEEN.load(SeqCst) {
        return;
    }
    let k = {
        let mut c = CHILD_RUNS.lock().unwrap_or_else(|e| e.into_inner());
        c.push(0);
        CHILD_MUST.lock().unwrap_or_else(|e| e.into_inner()).push(false);
        c.len() - 1
    };
    probe("rt.spawn-from-task");
    let h = open_coroutine_core::net::EventLoops::submit_task(
        None,
        move |_| {
            let n = {
                let mut c = CHILD_RUNS.lock().unwrap_or_else(|e| e.into_inner());
                c[k] += 1;
                c[k]
            };
            _ = PROGRESS.fetch_add(1, SeqCst);
            if n > 1 {
                fail("task-ran-twice", format!("child task {k} (submitted by a task) was started {n} times"));
            }
            Some(k)
        },
        None,
        None,
    );
    let accepted = h.id().is_ok_and(|id| id != 0) && !STOP_SEEN.load(SeqCst);
    CHILD_MUST.lock().unwrap_or_else(|e| e.into_inner())[k] = accepted;
    // nobody joins the children
    drop(h);
}

/// The closure handed to submit_task for task `i`.
pub fn make_body(i: usize, steps: Vec<J>, panics: bool, value: usize, who: fn() -> usize) -> impl FnOnce(Option<usize>) -> Option<usize> + 'static {
    move |_| {
        // (no scheduling point may happen while the RECS guard is held)
        if let Some(co) = open_coroutine_core::scheduler::SchedulableCoroutine::current() {
            _ = co.put("vtask", i);
        }
        {
            let mut r = recs();
            let t = &mut r[i];
            t.starts += 1;
            t.start_seq = sim::seq();
            t.start_ns = now();
            t.ran_on = who();
            let mut c = START_COUNTER.lock().unwrap_or_else(|e| e.into_inner());
            *c += 1;
            t.start_order = *c;
            if t.starts > 1 {
                let n = t.starts;
                drop(c);
                drop(r);
                fail("task-ran-twice", format!("task {i} was started {n} times"));
            }
            if t.cancelled_unstarted {
                drop(c);
                drop(r);
                fail("cancelled-task-ran", format!("task {i} was cancelled while it was certainly still queued, but it ran"));
            }
        }
        run_prog(i, &steps);
        {
            let mut r = recs();
            r[i].end_ns = Some(now());
            r[i].finished = true;
        }
        _ = PROGRESS.fetch_add(1, std::sync::atomic::Ordering::SeqCst);

        if panics {
            probe("task.panic");
            panic!("task {i} panics on purpose");
        }
        Some(value)
    }
}

pub fn gen_task(g: &mut Rng, i: usize, tier: Tier, allow_panic: bool) -> J {
    let mut steps = Vec::new();
    for _ in 0..g.below(if tier == Tier::Quick { 4 } else { 8 }) {
        match g.below(6) {
            0..=2 => steps.push(J::Arr(vec!["suspend".into()])),
            3 => steps.push(J::Arr(vec!["delay".into(), (*g.pick(&[0u64, 200_000, 2_000_000, 12_000_000])).into()])),
            _ => steps.push(J::Arr(vec!["work".into(), (*g.pick(&[10_000u64, 300_000, 2_000_000])).into()])),
        }
    }
    obj! {
        "name" => format!("task-{i}"),
        "steps" => J::Arr(steps),
        "panics" => allow_panic && g.chance(1, 6),
        "prio" => *g.pick(&[i64::MIN, -1, 0, 0, 0, 1, i64::MAX]),
    }
}

pub fn check_own_result(i: usize, t: &TaskRec, got: &Result<Option<usize>, String>, what: &str) {
    match got {
        Ok(v) => {
            if t.panics || *v != Some(t.value) {
                fail("wrong-result", format!("{what}: task {i} returned {got:?}, its own outcome is {}", if t.panics { "a panic".to_string() } else { format!("Some({})", t.value) }));
            }
        }
        Err(m) => {
            let pool_stopped = m.contains("pool has stopped");
            if pool_stopped {
                return; // judged by the caller (only legal for a task that never ran)
            }
            if !t.panics || !m.contains(&format!("task {i} panics on purpose")) {
                fail("wrong-result", format!("{what}: task {i} reported Err({m:?}), its own outcome is {}", if t.panics { format!("the panic 'task {i} panics on purpose'") } else { format!("Some({})", t.value) }));
            }
        }
    }
}

// ------------------------------------------------------------------------------------------------
// pool scenario

fn gen_pool(g: &mut Rng, tier: Tier) -> J {
    let ntasks = g.range(1, if tier == Tier::Quick { 8 } else { 12 }) as usize;
    let nusers = g.range(1, 3) as usize;
    let max = g.range(1, 4);
    let min = g.below(max.min(2) + 1);
    let ordered_mode = g.chance(1, 6); // C05 pool clause: max 1, everything queued before the first pass
    let mut tasks = Vec::new();
    for i in 0..ntasks {
        let mut t = gen_task(g, i, tier, true);
        if ordered_mode {
            t.set("steps", J::Arr(vec![]));
        }
        tasks.push(t);
    }
    let mut users: Vec<Vec<J>> = (0..nusers).map(|_| Vec::new()).collect();
    // every task is submitted by exactly one user; waits and cancels are sprinkled around
    for i in 0..ntasks {
        let u = g.below(nusers as u64) as usize;
        if g.chance(1, 8) {
            users[u].push(J::Arr(vec!["cancel".into(), i.into()])); // before it is even submitted
        }
        if g.chance(1, 4) {
            users[u].push(J::Arr(vec!["sleep".into(), (*g.pick(&[100_000u64, 3_000_000, 15_000_000])).into()]));
        }
        users[u].push(J::Arr(vec!["submit".into(), i.into()]));
        if !ordered_mode && g.chance(1, 5) {
            let w = g.below(nusers as u64) as usize;
            users[w].push(J::Arr(vec!["cancel".into(), i.into()]));
        }
        if g.chance(2, 3) {
            let w = if g.chance(2, 3) { u } else { g.below(nusers as u64) as usize };
            let to = *g.pick(&[0u64, 1, 50, 5_000, u64::MAX, u64::MAX]);
            users[w].push(J::Arr(vec!["wait".into(), i.into(), to.into()]));
            if to <= 50 && g.chance(3, 4) {
                // the repeated-slice pattern of any_join: a join that gave up is followed by another one on the same task
                users[w].push(J::Arr(vec!["rewait".into(), i.into(), (*g.pick(&[50u64, 5_000, 5_000, u64::MAX])).into()]));
            }
        }
    }
    let late_submit = g.chance(1, 4);
    // directed modes: stop at an arbitrary moment with work still queued; cancel a task that is
    // parked in a delay while another one computes on the same thread
    let mode = if ordered_mode { "normal" } else { *g.pick(&["normal", "normal", "early_stop", "cancel_parked"]) };
    let mut max = max;
    if mode == "cancel_parked" {
        max = max.max(2);
        let a = tasks.len();
        tasks.push(obj! {"name" => format!("task-{a}"), "steps" => J::Arr(vec![J::Arr(vec!["delay".into(), (*g.pick(&[12_000_000u64, 30_000_000])).into()])]), "panics" => false, "prio" => 0});
        let mut ops = vec![J::Arr(vec!["submit".into(), a.into()])];
        for k in 0..g.range(1, 3) as usize {
            let b = a + 1 + k;
            let mut steps = Vec::new();
            for _ in 0..g.range(10, 30) {
                steps.push(J::Arr(vec!["work".into(), 1_000_000u64.into()]));
            }
            tasks.push(obj! {"name" => format!("task-{b}"), "steps" => J::Arr(steps), "panics" => false, "prio" => 0});
            ops.push(J::Arr(vec!["submit".into(), b.into()]));
        }
        ops.push(J::Arr(vec!["sleep".into(), (*g.pick(&[2_000_000u64, 5_000_000, 9_000_000, 15_000_000])).into()]));
        ops.push(J::Arr(vec!["cancel".into(), a.into()]));
        ops.push(J::Arr(vec!["wait".into(), (a + 1).into(), 5_000u64.into()]));
        users.push(ops);
    }
    obj! {
        "mode" => mode,
        "stop_after_passes" => g.below(4),
        "min" => if ordered_mode { 0 } else { min.min(max) },
        "max" => if ordered_mode { 1 } else { max },
        "keep_alive_ns" => *g.pick(&[0u64, 1_000_000, 1_000_000_000]),
        "ordered_mode" => ordered_mode,
        "tasks" => J::Arr(tasks),
        "users" => J::Arr(users.into_iter().map(J::Arr).collect()),
        "pass_budget_ns" => *g.pick(&[1_000_000u64, 10_000_000, 10_000_000, 50_000_000]),
        "pass_gap_ns" => *g.pick(&[0u64, 100_000, 1_000_000, 5_000_000]),
        "late_submit" => late_submit,
        "sim" => gen_sim(g, SimOpts { max_points: 4_000_000, max_sim_ms: 200_000, stall: true, spurious: true, late_signals: true, ..SimOpts::default() }),
    }
}

struct Sh<T>(T);
unsafe impl<T> Send for Sh<T> {}
unsafe impl<T> Sync for Sh<T> {}
impl<T: Copy> Clone for Sh<T> {
    fn clone(&self) -> Self {
        Sh(self.0)
    }
}
impl<T: Copy> Copy for Sh<T> {}

fn who_pool() -> usize {
    0
}

#[derive(Clone, Debug)]
struct WaitRec {
    task: usize,
    timeout_ms: u64,
    call_ns: u64,
    ret_ns: Option<u64>,
    outcome: Option<Result<Result<Option<usize>, String>, String>>,
}

static WAITS: StdMutex<Vec<WaitRec>> = StdMutex::new(Vec::new());

fn body_pool(plan: &J) {
    use std::sync::atomic::Ordering::SeqCst;
    set_stall_slack(plan);
    recs().clear();
    WAITS.lock().unwrap_or_else(|e| e.into_inner()).clear();
    *START_COUNTER.lock().unwrap_or_else(|e| e.into_inner()) = 0;
    IN_PASS.store(false, SeqCst);
    STOP_SEEN.store(false, SeqCst);
    let tasks: Vec<J> = plan.ga("tasks").to_vec();
    for (i, t) in tasks.iter().enumerate() {
        recs().push(TaskRec {
            name: t.gs("name").to_string(),
            id: task_id_of(t.gs("name")),
            prio: t.gi("prio") as i64,
            panics: t.gb("panics"),
            value: 7000 + i,
            ..TaskRec::default()
        });
    }
    let max = plan.gus("max").max(1);
    let min = plan.gus("min").min(max);
    let keep_alive = plan.gu("keep_alive_ns");
    let pool: &'static mut CoroutinePool<'static> = Box::leak(Box::new(CoroutinePool::new("pool-under-test".into(), 64 * 1024, min, max, keep_alive)));
    spy_reset(plan.ga("tasks").len());
    pool.add_listener(CancelSpy);
    let pool_ptr = Sh(std::ptr::from_mut(pool));
    let shared: Sh<&'static CoroutinePool<'static>> = Sh(unsafe { &*pool_ptr.0 });
    let ordered_mode = plan.gb("ordered_mode");
    let users_done = std::sync::Arc::new(std::sync::atomic::AtomicUsize::new(0));
    let nusers = plan.ga("users").len();
    // ---- user threads
    let mut user_handles = Vec::new();
    for (ui, ops) in plan.ga("users").iter().enumerate() {
        let ops: Vec<J> = ops.arr().to_vec();
        let tasks = tasks.clone();
        let done = users_done.clone();
        let sh = shared;
        user_handles.push(vstd::thread::spawn(move || {
            let whole = sh; // capture the wrapper, not its field
            let pool = whole.0;
            for op in &ops {
                let a = op.arr();
                let ti = a.get(1).map_or(0, J::us);
                if ti >= tasks.len() && a[0].s() != "sleep" {
                    continue;
                }
                match a[0].s() {
                    "sleep" => vstd::thread::sleep(Duration::from_nanos(a[1].u())),
                    "submit" => {
                        if recs()[ti].submit_ok.is_some() {
                            continue;
                        }
                        let t = &tasks[ti];
                        let after_stop = STOP_SEEN.load(SeqCst);
                        let body = make_body(ti, t.ga("steps").to_vec(), t.gb("panics"), 7000 + ti, who_pool);
                        let r = pool.submit_task(Some(t.gs("name").to_string()), body, None, Some(t.gi("prio") as i64));
                        let mut rr = recs();
                        rr[ti].submit_ok = Some(r.is_ok());
                        rr[ti].accepted_before_stop = r.is_ok() && !STOP_SEEN.load(SeqCst);
                        rr[ti].submitted_epoch = PASS_EPOCH.load(SeqCst);
                        rr[ti].submit_began_after_stop_seen = after_stop;
                        if let Ok(id) = r {
                            if id != rr[ti].id {
                                drop(rr);
                                crate::child::harness_error(format!("task id prediction is off for task {ti}"));
                            }
                        } else if !after_stop {
                            // only a stopping/stopped pool may refuse
                            if pool.state() == PoolState::Running {
                                drop(rr);
                                fail("submit-refused", format!("user {ui}: submit of task {ti} was refused by a running pool"));
                            }
                        }
                        if r.is_ok() && after_stop {
                            drop(rr);
                            fail("submit-after-stop", format!("user {ui}: submit of task {ti} began after the pool was seen Stopping/Stopped, and was accepted"));
                        }
                    }
                    "cancel" => {
                        let id = recs()[ti].id;
                        let epoch_before = PASS_EPOCH.load(SeqCst);
                        let quiet_before = !IN_PASS.load(SeqCst);
                        let started_before = recs()[ti].starts > 0;
                        cancel_with_probe(ti, || CoroutinePool::try_cancel_task(id));
                        probe("task.cancel");
                        let quiet_after = !IN_PASS.load(SeqCst);
                        let mut rr = recs();
                        rr[ti].cancel_calls += 1;
                        rr[ti].cancelled_any = true;
                        // certainly still queued (or not yet submitted): nobody was scheduling during the
                        // whole call and the body had not started
                        if quiet_before && quiet_after && !started_before && rr[ti].starts == 0 && epoch_before == PASS_EPOCH.load(SeqCst) {
                            rr[ti].cancelled_unstarted = true;
                        }
                    }
                    "wait" | "rewait" => {
                        if recs()[ti].submit_ok != Some(true) {
                            continue;
                        }
                        if a[0].s() == "rewait" {
                            // only after this task's earlier join gave up (a join that returned took the result with it)
                            let w = WAITS.lock().unwrap_or_else(|e| e.into_inner());
                            let gave_up = w.iter().any(|x| x.task == ti && matches!(&x.outcome, Some(Err(k)) if k == "TimedOut"));
                            let taken = w.iter().any(|x| x.task == ti && matches!(&x.outcome, Some(Ok(_)) | None));
                            drop(w);
                            if !gave_up || taken {
                                continue;
                            }
                            probe("task.rejoin-after-timeout");
                        }
                        let to = a[2].u();
                        let id = recs()[ti].id;
                        let idx = {
                            let mut w = WAITS.lock().unwrap_or_else(|e| e.into_inner());
                            w.push(WaitRec { task: ti, timeout_ms: to, call_ns: now(), ret_ns: None, outcome: None });
                            w.len() - 1
                        };
                        let dur = if to == u64::MAX { Duration::MAX } else { Duration::from_millis(to) };
                        let r = pool.wait_task_result(id, dur);
                        let out = match r {
                            Ok(inner) => Ok(inner.map_err(str::to_string)),
                            Err(e) => Err(format!("{:?}", e.kind())),
                        };
                        let mut w = WAITS.lock().unwrap_or_else(|e| e.into_inner());
                        w[idx].ret_ns = Some(now());
                        w[idx].outcome = Some(out);
                    }
                    _ => {}
                }
            }
            _ = done.fetch_add(1, SeqCst);
        }));
    }
    // ---- owner thread: passes until the users are done (or parked in untimed waits), then stop
    let budget = plan.gu("pass_budget_ns").max(100_000);
    let gap = plan.gu("pass_gap_ns");
    let late = plan.gb("late_submit");
    let early_stop = plan.gs("mode") == "early_stop";
    let stop_after = plan.gu("stop_after_passes");
    let tasks2 = tasks.clone();
    let done2 = users_done.clone();
    let owner = vstd::thread::spawn(move || {
        let pp = pool_ptr;
        let pool: &mut CoroutinePool<'static> = unsafe { &mut *pp.0 };
        let t_begin = now();
        if ordered_mode {
            // C05 pool clause: let every submit land before the first pass
            while now() - t_begin < 3_000_000_000 {
                if recs().iter().all(|t| t.submit_ok.is_some()) {
                    break;
                }
                vstd::thread::sleep(Duration::from_millis(1));
            }
        }
        let mut quiet_since: Option<u64> = None;
        let mut passes = 0u64;
        loop {
            if early_stop && passes >= stop_after {
                probe("pool.early-stop");
                break;
            }
            passes += 1;
            _ = PASS_EPOCH.fetch_add(1, SeqCst);
            IN_PASS.store(true, SeqCst);
            let r = pool.try_timed_schedule_task(Duration::from_nanos(budget));
            IN_PASS.store(false, SeqCst);
            match r {
                Err(e) => fail("schedule-error", format!("try_timed_schedule_task failed: {e}")),
                // like the event loop, which spends the rest of its slice waiting for I/O
                Ok(left) if left > 0 => vstd::thread::sleep(Duration::from_nanos(left.min(budget))),
                Ok(_) => {}
            }
            let rs = pool.get_running_size();
            if rs > pool.get_max_size() {
                fail("pool-over-max", format!("running size {rs} exceeds the maximum {}", pool.get_max_size()));
            }
            if gap > 0 {
                vstd::thread::sleep(Duration::from_nanos(gap));
            }
            // stop condition: every user finished or is parked in a wait that only stop can end, and
            // every accepted, not cancelled task has finished; or a hard horizon
            let all_done = {
                let r = recs();
                r.iter().all(|t| t.submit_ok != Some(true) || t.finished || t.cancelled_any)
            };
            let users_quiet = all_users_blocked_or_done(&done2, nusers);
            if (all_done && users_quiet) || now() - t_begin > 6_000_000_000 {
                match quiet_since {
                    None => quiet_since = Some(now()),
                    Some(q) => {
                        // C11: with no minimum, the workers go away once everything is done
                        if now() - q > keep_alive.min(1_000_000_000) + 1_000_000_000 || now() - t_begin > 8_000_000_000 {
                            break;
                        }
                    }
                }
            } else {
                quiet_since = None;
            }
        }
        let all_done = recs().iter().all(|t| t.submit_ok != Some(true) || t.finished || t.cancelled_any);
        let running_before_stop = pool.get_running_size();
        // (an early stop has not waited out the keep-alive time: nothing to demand yet)
        if all_done && min == 0 && running_before_stop != 0 && !early_stop {
            fail(
                "workers-not-released",
                format!("all tasks finished or were cancelled more than keep-alive + 1 s ago and passes kept running, but the pool still reports {running_before_stop} running worker(s) (min size 0)"),
            );
        }
        // ---- stop
        STOP_SEEN.store(true, SeqCst);
        let t0 = now();
        if late {
            // a submit that begins now must be refused (checked in the user code path below too)
        }
        // stop() schedules too: for the "certainly still queued" bookkeeping of the cancel operations it
        // is one more pass
        _ = PASS_EPOCH.fetch_add(1, SeqCst);
        IN_PASS.store(true, SeqCst);
        crate::child::mon_enter("stop-slow|pool.stop(30 s)");
        let r = pool.stop(Duration::from_secs(30));
        crate::child::mon_exit();
        let took = now() - t0;
        note("stop_ms", took / 1_000_000);
        match r {
            Err(e) => fail("stop-failed", format!("stop(30 s) failed: {e}")),
            Ok(()) => {
                if all_done && took > 1_000_000_000 {
                    fail("stop-slow", format!("every task had finished or been cancelled, yet stop(30 s) needed {} ms of simulated time", took / 1_000_000));
                }
                if took > 30_000_000_000 + slack_ns() {
                    fail("stop-slow", format!("stop(30 s) returned after {} ms", took / 1_000_000));
                }
            }
        }
        if pool.state() != PoolState::Stopped {
            fail("pool-state", format!("stop returned Ok but the pool is {:?}", pool.state()));
        }
        if pool.get_running_size() != 0 {
            fail("workers-not-released", format!("stop returned Ok with {} worker(s) still counted as running", pool.get_running_size()));
        }
        // a submission after stop must be refused
        let extra = pool.submit_task(Some("late-task".into()), |_| None, None, None);
        if extra.is_ok() {
            fail("submit-after-stop", "a task submitted after stop() returned was accepted".into());
        }
        // every accepted task ran or was cancelled
        let r = recs();
        for (i, t) in r.iter().enumerate() {
            if t.accepted_before_stop && !t.cancelled_any && t.starts == 0 {
                let msg = format!("stop() reported success but task {i}, accepted before stop was called and never cancelled, was never executed");
                drop(r);
                fail("accepted-task-dropped", msg);
            }
            if t.accepted_before_stop && !t.cancelled_any && !t.finished {
                let msg = format!("stop() reported success but task {i} had started and not finished");
                drop(r);
                fail("accepted-task-dropped", msg);
            }
        }
        let _ = tasks2;
    });
    // ---- orchestrator: wait for the owner, then every user must come back promptly
    crate::child::set_stuck_limit_ns(5_000_000_000);
    if owner.join().is_err() {
        fail("owner-panic", format!("the scheduling thread panicked: {}", crate::child::last_panic()));
    }
    let t_stop = now();
    for (ui, h) in user_handles.into_iter().enumerate() {
        let tid = h.sim_tid();
        // timed waits may legally run to their own deadline; an untimed wait on a task that will
        // never run must be released by stop() (an error instead of blocking forever)
        loop {
            if h.is_finished() {
                break;
            }
            let w = WAITS.lock().unwrap_or_else(|e| e.into_inner()).clone();
            let pending: Vec<&WaitRec> = w.iter().filter(|x| x.ret_ns.is_none()).collect();
            let latest_deadline = pending
                .iter()
                .map(|x| if x.timeout_ms == u64::MAX { 0 } else { x.call_ns.saturating_add(x.timeout_ms.saturating_mul(1_000_000)) })
                .max()
                .unwrap_or(0);
            let limit = t_stop.max(latest_deadline) + 1_000_000_000;
            if now() > limit && now() > t_stop + 7_000_000_000 {
                let snap = recs().clone();
                let desc: Vec<String> = pending
                    .iter()
                    .map(|x| format!("task {} ({}; starts={} finished={} cancel calls={})", x.task, if x.timeout_ms == u64::MAX { "no timeout".to_string() } else { format!("timeout {} ms", x.timeout_ms) }, snap[x.task].starts, snap[x.task].finished, snap[x.task].cancel_calls))
                    .collect();
                fail("waiter-stuck", format!("user thread {ui} (t{tid:?}) is still blocked {} ms after stop() returned and past every timed wait's deadline; unreturned waits: {desc:?}", (now() - t_stop) / 1_000_000));
            }
            vstd::thread::sleep(Duration::from_millis(5));
        }
        if h.join().is_err() {
            fail("user-panic", format!("user thread {ui} panicked: {}", crate::child::last_panic()));
        }
    }
    if sim::report().switches > 3 {
        probe("pool.concurrent");
    }
    // ---- history checks
    let r = recs().clone();
    let waits = WAITS.lock().unwrap_or_else(|e| e.into_inner()).clone();
    for w in &waits {
        let t = &r[w.task];
        let (Some(ret), Some(out)) = (w.ret_ns, w.outcome.as_ref()) else { continue };
        let waited = ret - w.call_ns;
        let timeout_ns = if w.timeout_ms == u64::MAX { u64::MAX } else { w.timeout_ms.saturating_mul(1_000_000) };
        if waited > 0 {
            probe("task.wait-blocked");
        }
        match out {
            Ok(res) => {
                if t.starts == 0 {
                    // never ran: only the stop error is acceptable
                    let cancelled_msg = matches!(res, Err(m) if m.contains("cancelled")) && t.cancelled_any;
                    if !cancelled_msg && !matches!(res, Err(m) if m.contains("pool has stopped")) {
                        fail("wrong-result", format!("wait on task {} returned {res:?} although the task never ran", w.task));
                    }
                } else {
                    check_own_result(w.task, t, res, "wait_task_result");
                    // prompt: not later than 100 ms after both the call and the task's end
                    if let Some(e) = t.end_ns {
                        let ready = e.max(w.call_ns);
                        if ret > ready + slack_ns() && !matches!(res, Err(m) if m.contains("pool has stopped")) {
                            fail("wait-late", format!("wait on task {} returned {} ms after the task had finished (and the wait had begun); timeout {} ms", w.task, (ret - ready) / 1_000_000, w.timeout_ms));
                        }
                    }
                }
            }
            Err(kind) => {
                if kind != "TimedOut" {
                    fail("wait-error", format!("wait on task {} failed with {kind}", w.task));
                }
                // timed out: legal only if the task had not finished by deadline - slack
                if timeout_ns == u64::MAX {
                    fail("wait-timeout-untimed", format!("untimed wait on task {} reported a timeout after {} ms", w.task, waited / 1_000_000));
                }
                let deadline = w.call_ns.saturating_add(timeout_ns);
                if let Some(e) = t.end_ns {
                    if e + slack_ns() < deadline && t.finished {
                        fail("wait-timeout-spurious", format!("wait on task {} timed out (timeout {} ms) although the task had finished {} ms before the deadline", w.task, w.timeout_ms, (deadline - e) / 1_000_000));
                    }
                }
                if ret > deadline.saturating_add(slack_ns()) {
                    fail("wait-late", format!("wait on task {} with timeout {} ms returned {} ms after its deadline", w.task, w.timeout_ms, (ret - deadline) / 1_000_000));
                }
            }
        }
    }
    // C13: tasks that nobody cancelled ran exactly once (ran-twice is checked online)
    for (i, t) in r.iter().enumerate() {
        if t.accepted_before_stop && !t.cancelled_any && (t.starts != 1 || !t.finished) {
            fail("task-lost", format!("task {i} (accepted, never cancelled): starts {}, finished {}", t.starts, t.finished));
        }
    }
    // C05 pool clause: one worker, everything queued before the first pass -> priority order, FIFO among equals
    if ordered_mode {
        let cap = plan.get("sim").and_then(|s| s.get("knobs")).map_or(256, |k| k.gu("queue.local_capacity")) as usize;
        let mut started: Vec<(u64, usize)> = r.iter().enumerate().filter(|(_, t)| t.starts == 1).map(|(i, t)| (t.start_order, i)).collect();
        started.sort_unstable();
        let all_before_first_pass = r.iter().all(|t| t.submit_ok == Some(true) && t.submitted_epoch == 0);
        if r.len() <= cap && started.len() == r.len() && nusers == 1 && all_before_first_pass && !r.iter().any(|t| t.cancelled_any) {
            probe("pool.priority-order");
            // submission order = task index order per user
            for w in started.windows(2) {
                let (a, b) = (&r[w[0].1], &r[w[1].1]);
                let bad = a.prio > b.prio || (a.prio == b.prio && w[0].1 > w[1].1);
                if bad {
                    fail("priority-order", format!("single worker, {} queued tasks <= capacity {cap}: task {} (priority {}) started before task {} (priority {})", r.len(), w[0].1, a.prio, w[1].1, b.prio));
                }
            }
        }
    }
    note("tasks", r.len());
    note("waits", waits.len());
}

/// All user threads have finished their op list or are blocked (in a wait).
fn all_users_blocked_or_done(done: &std::sync::atomic::AtomicUsize, nusers: usize) -> bool {
    if done.load(std::sync::atomic::Ordering::SeqCst) >= nusers {
        return true;
    }
    // a user that is not done is either running, sleeping or waiting; treat "every unfinished user
    // has an unreturned wait" as parked
    let w = WAITS.lock().unwrap_or_else(|e| e.into_inner());
    let pending = w.iter().filter(|x| x.ret_ns.is_none()).count();
    pending + done.load(std::sync::atomic::Ordering::SeqCst) >= nusers
}

// ------------------------------------------------------------------------------------------------
// rt scenario: the whole runtime

use open_coroutine_core::config::Config;
use open_coroutine_core::net::join::JoinHandle;
use open_coroutine_core::net::EventLoops;

pub static RT: Scenario = Scenario {
    name: "rt",
    about: "whole runtime: 1-4 event-loop threads, 1-4 user threads submitting / joining / cancelling generated tasks (incl. hooked sleeps and child tasks) through EventLoops; quiet period; EventLoops::stop",
    gen: gen_rt,
    body: body_rt,
    key_probes: &["task.suspend", "task.cancel", "task.wait-blocked", "task.panic", "rt.cross-loop", "rt.hooked-sleep"],
    wall_ms: 40_000,
    chunk: 1,
};

fn who_rt() -> usize {
    // "open-coroutine-event-loop-<i>-thread"
    std::thread::current()
        .name()
        .and_then(|n| n.strip_prefix("open-coroutine-event-loop-"))
        .and_then(|n| n.split('-').next())
        .and_then(|n| n.parse().ok())
        .unwrap_or(usize::MAX)
}

fn gen_rt(g: &mut Rng, tier: Tier) -> J {
    let loops = *g.pick(&[1u64, 1, 2, 2, 3, 4]);
    let nusers = g.range(1, 4) as usize;
    let ntasks = g.range(1, if tier == Tier::Quick { 12 } else { 40 }) as usize;
    let mut tasks = Vec::new();
    for i in 0..ntasks {
        let mut t = gen_task(g, i, tier, true);
        if g.chance(1, 4) {
            // hooked sleeps inside the task
            let mut steps = t.ga("steps").to_vec();
            steps.push(J::Arr(vec!["hsleep".into(), (*g.pick(&[100u64, 1_000, 3_000, 12_000, 25_000])).into()]));
            t.set("steps", J::Arr(steps));
        }
        if g.chance(1, 4) {
            // tasks that submit tasks themselves, from inside an event loop
            let mut steps = t.ga("steps").to_vec();
            let at = g.below(steps.len() as u64 + 1) as usize;
            steps.insert(at, J::Arr(vec!["spawn".into(), g.range(1, 6).into()]));
            t.set("steps", J::Arr(steps));
        }
        tasks.push(t);
    }
    let mut users: Vec<Vec<J>> = (0..nusers).map(|_| Vec::new()).collect();
    for i in 0..ntasks {
        let u = g.below(nusers as u64) as usize;
        if g.chance(1, 12) {
            users[u].push(J::Arr(vec!["cancel".into(), i.into()]));
        }
        if g.chance(1, 5) {
            users[u].push(J::Arr(vec!["sleep".into(), (*g.pick(&[100_000u64, 3_000_000, 15_000_000])).into()]));
        }
        users[u].push(J::Arr(vec!["submit".into(), i.into()]));
        if g.chance(1, 8) {
            let w = g.below(nusers as u64) as usize;
            users[w].push(J::Arr(vec!["cancel".into(), i.into()]));
        }
        if g.chance(2, 3) {
            // only the submitting thread holds the handle
            let to = *g.pick(&[0u64, 1, 50, 5_000, 5_000, u64::MAX]);
            users[u].push(J::Arr(vec!["wait".into(), i.into(), to.into()]));
        }
        if g.chance(1, 10) {
            users[u].push(J::Arr(vec!["drop".into(), i.into()]));
        }
    }
    let mut max = *g.pick(&[1u64, 2, 4, 16, 65536]);
    let mode = *g.pick(&["normal", "normal", "normal", "early_stop", "cancel_parked", "join_race"]);
    let mut loops = loops;
    if mode == "join_race" {
        // a user that joins every task right after submitting it: the join races the completion
        // (one loop: with several, every join of a task another loop ran costs its whole timeout -
        // the recorded cross-loop finding - and the run would not end within its budget)
        loops = 1;
        let a = tasks.len();
        let mut ops = Vec::new();
        for k in 0..g.range(10, 40) as usize {
            let mut steps = Vec::new();
            if g.chance(1, 3) {
                steps.push(J::Arr(vec!["work".into(), (*g.pick(&[1_000u64, 10_000, 60_000])).into()]));
            }
            tasks.push(obj! {"name" => format!("task-{}", a + k), "steps" => J::Arr(steps), "panics" => false, "prio" => 0});
            ops.push(J::Arr(vec!["submit".into(), (a + k).into()]));
            if g.chance(1, 3) {
                ops.push(J::Arr(vec!["sleep".into(), (*g.pick(&[1_000u64, 20_000, 100_000])).into()]));
            }
            ops.push(J::Arr(vec!["wait".into(), (a + k).into(), 5_000u64.into()]));
        }
        users.push(ops);
    }
    if mode == "cancel_parked" {
        // one loop, so that the parked task and the computing ones share a thread
        loops = 1;
        max = max.max(2);
        let a = tasks.len();
        tasks.push(obj! {"name" => format!("task-{a}"), "steps" => J::Arr(vec![J::Arr(vec![(*g.pick(&["delay", "hsleep"])).into(), (*g.pick(&[12_000_000u64, 30_000_000])).into()])]), "panics" => false, "prio" => 0});
        if let Some(t) = tasks.last_mut() {
            // hsleep takes microseconds
            let st = t.ga("steps")[0].arr().to_vec();
            if st[0].s() == "hsleep" {
                t.set("steps", J::Arr(vec![J::Arr(vec!["hsleep".into(), (st[1].u() / 1000).into()])]));
            }
        }
        let mut ops = vec![J::Arr(vec!["submit".into(), a.into()])];
        for k in 0..g.range(1, 3) as usize {
            let b = a + 1 + k;
            let mut steps = Vec::new();
            for _ in 0..g.range(10, 30) {
                steps.push(J::Arr(vec!["work".into(), 1_000_000u64.into()]));
            }
            tasks.push(obj! {"name" => format!("task-{b}"), "steps" => J::Arr(steps), "panics" => false, "prio" => 0});
            ops.push(J::Arr(vec!["submit".into(), b.into()]));
        }
        ops.push(J::Arr(vec!["sleep".into(), (*g.pick(&[12_000_000u64, 15_000_000, 19_000_000, 25_000_000])).into()]));
        ops.push(J::Arr(vec!["cancel".into(), a.into()]));
        ops.push(J::Arr(vec!["wait".into(), (a + 1).into(), 5_000u64.into()]));
        users.push(ops);
    }
    let mut sim = gen_sim(g, SimOpts { max_points: 5_000_000, max_sim_ms: 120_000, stall: true, spurious: true, late_signals: true, ..SimOpts::default() });
    if let Some(k) = sim.get_mut("knobs") {
        k.set("num_cpus", g.range(loops, 4).into());
    }
    obj! {
        "mode" => mode,
        "stop_after_ms" => *g.pick(&[0u64, 1, 5, 12, 30, 80]),
        "loops" => loops,
        "min" => *g.pick(&[0u64, 0, 0, 1, 2]).min(&max),
        "max" => max,
        "keep_alive_ns" => *g.pick(&[0u64, 1_000_000, 1_000_000_000]),
        "tasks" => J::Arr(tasks),
        "users" => J::Arr(users.into_iter().map(J::Arr).collect()),
        "sim" => sim,
    }
}

static HANDLES: StdMutex<Vec<Option<Sh<JoinHandle>>>> = StdMutex::new(Vec::new());

fn hooked_sleep_us(us: u64) {
    probe("rt.hooked-sleep");
    let t0 = now();
    let r = open_coroutine_core::syscall::usleep(None, us as libc::c_uint);
    let dt = now() - t0;
    if r != 0 {
        fail("hooked-sleep-error", format!("hooked usleep({us}) returned {r}"));
    }
    if dt < us * 1_000 {
        fail("hooked-sleep-early", format!("hooked usleep({us} us) returned after {} us", dt / 1_000));
    }
}

/// Root-cause probe for the signal-based cancel: SIGVTALRM is aimed at the thread that ran the task
/// when the cancel was requested; whatever coroutine is current on that thread when the signal is
/// handled gets cancelled. Counted when a coroutine ends Cancelled while it runs a task nobody asked
/// to cancel.
#[derive(Clone, Debug)]
struct CancelSpy;

/// task -> (thread whose scheduler parked its coroutine, another coroutine has run on that thread since)
static PARKED: StdMutex<Vec<(Option<String>, bool)>> = StdMutex::new(Vec::new());

fn spy_reset(n: usize) {
    SUSPECT.lock().unwrap_or_else(|e| e.into_inner()).clear();
    let mut p = PARKED.lock().unwrap_or_else(|e| e.into_inner());
    p.clear();
    p.resize(n, (None, false));
}

/// A cancel request for task `ti` is about to be made. `true` if its coroutine is certainly parked:
/// it was suspended and its thread has run another coroutine since, so the scheduler cannot list it
/// as running any more.
fn certainly_parked(ti: usize) -> bool {
    let started_unfinished = {
        let r = recs();
        ti < r.len() && r[ti].starts > 0 && !r[ti].finished
    };
    let p = PARKED.lock().unwrap_or_else(|e| e.into_inner());
    started_unfinished && p.get(ti).is_some_and(|e| e.0.is_some() && e.1)
}

/// Wraps a cancel call: a request that goes down the signal path although its target is certainly
/// parked can only hit somebody else.
fn cancel_with_probe(ti: usize, f: impl FnOnce()) {
    let parked = certainly_parked(ti);
    // (signals sent by this very call: another user thread may cancel a running task at the same time)
    let sent_before = sim::signals_sent_by_me();
    f();
    // still parked after the call: it did not start running while the request was being made
    if parked && certainly_parked(ti) && sim::signals_sent_by_me() > sent_before {
        // not yet a fact: the scheduler lists a coroutine as running from just before it resumes it, so
        // a parked coroutine that is being popped right now legitimately takes the signal path. It
        // becomes a fact if the coroutine does not start running within the next 500 us.
        if std::env::var("VSIM_TRACE_TASK").is_ok() {
            let r = recs();
            eprintln!("[suspect] cancel of task {ti} at +{}us took the signal path; starts {} finished {} parked {:?}", (now() % 1_000_000_000_000) / 1000, r[ti].starts, r[ti].finished, PARKED.lock().unwrap_or_else(|e| e.into_inner()).get(ti));
        }
        SUSPECT.lock().unwrap_or_else(|e| e.into_inner()).push((ti, now()));
    }
}

/// (task, time of a cancel request that took the signal path although the task looked parked)
static SUSPECT: StdMutex<Vec<(usize, u64)>> = StdMutex::new(Vec::new());

/// Called from the listener on every state change: `running` = the task whose coroutine just became
/// Running (clears its suspicion); suspicions older than 500 us become the root-cause counter.
fn suspect_tick(running: Option<usize>) {
    let mut s = SUSPECT.lock().unwrap_or_else(|e| e.into_inner());
    if s.is_empty() {
        return;
    }
    let t = now();
    let mut matured = 0;
    s.retain(|(task, at)| {
        if Some(*task) == running && t.saturating_sub(*at) <= 500_000 {
            return false;
        }
        if t.saturating_sub(*at) > 500_000 {
            matured += 1;
            return false;
        }
        true
    });
    drop(s);
    for _ in 0..matured {
        sim::count("cause.rt.signal-for-parked-task");
    }
}

impl open_coroutine_core::coroutine::listener::Listener<(), Option<usize>> for CancelSpy {
    fn on_state_changed(
        &self,
        local: &open_coroutine_core::coroutine::local::CoroutineLocal,
        _: open_coroutine_core::scheduler::SchedulableCoroutineState,
        new: open_coroutine_core::scheduler::SchedulableCoroutineState,
    ) {
        {
            use open_coroutine_core::common::constants::{CoroutineState, SyscallState};
            let me = std::thread::current().name().unwrap_or("?").to_string();
            let tag = local.get::<usize>("vtask").copied();
            if let (Some(t), Ok(want)) = (tag, std::env::var("VSIM_TRACE_TASK")) {
                if want.parse::<usize>().ok() == Some(t) {
                    eprintln!("[trace task {t}] +{}us on {me}: -> {new:?}", (now() % 1_000_000_000_000) / 1000);
                }
            }
            suspect_tick(if matches!(new, CoroutineState::Running) { tag } else { None });
            let mut p = PARKED.lock().unwrap_or_else(|e| e.into_inner());
            match new {
                CoroutineState::Running => {
                    // whoever was parked by this thread has been left behind by now
                    for (i, e) in p.iter_mut().enumerate() {
                        if Some(i) != tag && e.0.as_deref() == Some(me.as_str()) {
                            e.1 = true;
                        }
                    }
                    if let Some(i) = tag {
                        if let Some(e) = p.get_mut(i) {
                            *e = (None, false);
                        }
                    }
                }
                CoroutineState::Suspend(..) | CoroutineState::Syscall((), _, SyscallState::Suspend(_)) => {
                    if let Some(i) = tag {
                        if let Some(e) = p.get_mut(i) {
                            *e = (Some(me), false);
                        }
                    }
                }
                _ => {}
            }
        }
        if let open_coroutine_core::common::constants::CoroutineState::Cancelled = new {
            if let Some(i) = local.get::<usize>("vtask").copied() {
                let r = recs();
                if i < r.len() && r[i].cancel_calls == 0 && !r[i].finished {
                    sim::count("cause.rt.cancel-hit-other-task");
                }
                if i < r.len() && r[i].finished {
                    // the body of the task had returned: the signal caught the worker in the pool's
                    // own bookkeeping (storing the result, notifying the waiter) or idle
                    sim::count("cause.rt.cancel-after-task-body");
                }
            }
        }
    }
}

fn body_rt(plan: &J) {
    use std::sync::atomic::Ordering::SeqCst;
    set_stall_slack(plan);
    recs().clear();
    WAITS.lock().unwrap_or_else(|e| e.into_inner()).clear();
    HANDLES.lock().unwrap_or_else(|e| e.into_inner()).clear();
    *START_COUNTER.lock().unwrap_or_else(|e| e.into_inner()) = 0;
    STOP_SEEN.store(false, SeqCst);
    let tasks: Vec<J> = plan.ga("tasks").to_vec();
    for (i, t) in tasks.iter().enumerate() {
        recs().push(TaskRec {
            name: t.gs("name").to_string(),
            id: task_id_of(t.gs("name")),
            prio: t.gi("prio") as i64,
            panics: t.gb("panics"),
            value: 7000 + i,
            ..TaskRec::default()
        });
        HANDLES.lock().unwrap_or_else(|e| e.into_inner()).push(None);
    }
    let loops = plan.gus("loops").clamp(1, 4);
    let max = plan.gus("max").max(1);
    let min = plan.gus("min").min(max);
    if loops > 1 {
        sim::count("cause.rt.multi-loop");
    }
    let cfg = Config::new(loops, 64 * 1024, min, max, plan.gu("keep_alive_ns"), 0, 0, true);
    EventLoops::init(&cfg);
    CHILD_RUNS.lock().unwrap_or_else(|e| e.into_inner()).clear();
    CHILD_MUST.lock().unwrap_or_else(|e| e.into_inner()).clear();
    RT_ACTIVE.store(true, SeqCst);
    spy_reset(tasks.len());
    EventLoops::verif_add_listener(CancelSpy);
    let nusers = plan.ga("users").len();
    let users_done = std::sync::Arc::new(std::sync::atomic::AtomicUsize::new(0));
    let mut user_handles = Vec::new();
    for (ui, ops) in plan.ga("users").iter().enumerate() {
        let ops: Vec<J> = ops.arr().to_vec();
        let tasks = tasks.clone();
        let done = users_done.clone();
        user_handles.push(vstd::thread::spawn(move || {
            for op in &ops {
                let a = op.arr();
                let ti = a.get(1).map_or(0, J::us);
                if ti >= tasks.len() && a[0].s() != "sleep" {
                    continue;
                }
                match a[0].s() {
                    "sleep" => vstd::thread::sleep(Duration::from_nanos(a[1].u())),
                    "submit" => {
                        if recs()[ti].submit_ok.is_some() {
                            continue;
                        }
                        let t = &tasks[ti];
                        let body = make_body(ti, t.ga("steps").to_vec(), t.gb("panics"), 7000 + ti, who_rt);
                        mon_enter_submit(ti);
                        let h = EventLoops::submit_task(Some(t.gs("name").to_string()), body, None, Some(t.gi("prio") as i64));
                        crate::child::mon_exit();
                        let ok = h.id().is_ok();
                        let hl = h
                            .verif_loop_name()
                            .strip_prefix("open-coroutine-event-loop-")
                            .and_then(|n| n.parse().ok())
                            .unwrap_or(usize::MAX);
                        let mut rr = recs();
                        rr[ti].submit_ok = Some(ok);
                        rr[ti].accepted_before_stop = ok && !STOP_SEEN.load(SeqCst);
                        rr[ti].handle_loop = hl;
                        if ok && h.id().ok() != Some(rr[ti].id) {
                            drop(rr);
                            crate::child::harness_error(format!("task id prediction is off for task {ti}"));
                        }
                        drop(rr);
                        if !ok && !STOP_SEEN.load(SeqCst) {
                            fail("submit-refused", format!("user {ui}: submit of task {ti} was refused although nobody had asked the runtime to stop"));
                        }
                        if !ok {
                            continue;
                        }
                        HANDLES.lock().unwrap_or_else(|e| e.into_inner())[ti] = Some(Sh(h));
                    }
                    "cancel" => {
                        let id = recs()[ti].id;
                        let unsubmitted = recs()[ti].submit_ok.is_none();
                        cancel_with_probe(ti, || EventLoops::try_cancel_task(id));
                        probe("task.cancel");
                        let mut rr = recs();
                        rr[ti].cancel_calls += 1;
                        rr[ti].cancelled_any = true;
                        // certainly not started: the task had not even been submitted when the call began
                        if unsubmitted && rr[ti].submit_ok.is_none() {
                            rr[ti].cancelled_unstarted = true;
                        }
                    }
                    "drop" => {
                        let h = HANDLES.lock().unwrap_or_else(|e| e.into_inner())[ti].take().map(|s| s.0);
                        drop(h);
                    }
                    "wait" => {
                        let h = HANDLES.lock().unwrap_or_else(|e| e.into_inner())[ti].take().map(|s| s.0);
                        let Some(h) = h else { continue };
                        let to = a[2].u();
                        let idx = {
                            let mut w = WAITS.lock().unwrap_or_else(|e| e.into_inner());
                            w.push(WaitRec { task: ti, timeout_ms: to, call_ns: now(), ret_ns: None, outcome: None });
                            w.len() - 1
                        };
                        let r = if to == u64::MAX { h.join() } else { h.timeout_join(Duration::from_millis(to)) };
                        let out = match r {
                            Ok(inner) => Ok(inner.map_err(str::to_string)),
                            Err(e) => Err(format!("{:?}", e.kind())),
                        };
                        {
                            let mut w = WAITS.lock().unwrap_or_else(|e| e.into_inner());
                            w[idx].ret_ns = Some(now());
                            w[idx].outcome = Some(out);
                        }
                        HANDLES.lock().unwrap_or_else(|e| e.into_inner())[ti] = Some(Sh(h));
                    }
                    _ => {}
                }
            }
            _ = done.fetch_add(1, SeqCst);
        }));
    }
    // ---- wait until the users are done or parked, then a quiet period of 2 s
    crate::child::set_stuck_limit_ns(5_000_000_000);
    let t_begin = now();
    let early_stop = plan.gs("mode") == "early_stop";
    if early_stop {
        probe("rt.early-stop");
        vstd::thread::sleep(Duration::from_millis(plan.gu("stop_after_ms")));
    }
    while !early_stop {
        vstd::thread::sleep(Duration::from_millis(5));
        // stop only when every user has finished its list, or is parked in an untimed join (which
        // only the stop can end), or after a long horizon
        let untimed_pending = WAITS.lock().unwrap_or_else(|e| e.into_inner()).iter().filter(|x| x.ret_ns.is_none() && x.timeout_ms == u64::MAX).count();
        if users_done.load(SeqCst) + untimed_pending >= nusers || now() - t_begin > 40_000_000_000 {
            break;
        }
    }
    if !early_stop {
        // quiet period: until every accepted, never cancelled task has ended, but give up once no task
        // body has made a step for two simulated seconds (stuck, not merely slow) or after a minute
        let t_quiet = now();
        let mut last = PROGRESS.load(SeqCst);
        let mut last_change = now();
        loop {
            vstd::thread::sleep(Duration::from_millis(20));
            let all_done = recs().iter().all(|t| t.submit_ok != Some(true) || t.cancelled_any || t.finished);
            if all_done && now() - t_quiet >= 2_000_000_000 {
                break;
            }
            let p = PROGRESS.load(SeqCst);
            if p != last {
                last = p;
                last_change = now();
            }
            if now() - last_change > 2_000_000_000 || now() - t_quiet > 60_000_000_000 {
                break;
            }
        }
    }
    // C01: every accepted task that nobody cancelled has run exactly once by now
    {
        let r = recs();
        for (i, t) in r.iter().enumerate() {
            if !early_stop && t.submit_ok == Some(true) && !t.cancelled_any && (t.starts != 1 || !t.finished) {
                let stats = EventLoops::verif_loop_stats();
                let msg = format!(
                    "task {i} (accepted, never cancelled) has starts={} finished={} although no task body has made a step for two simulated seconds (or a minute has passed) since the last submission, while the runtime keeps scheduling; loops (state, workers, queue empty): {stats:?}",
                    t.starts, t.finished
                );
                drop(r);
                fail("task-stranded", msg);
            }
        }
        if !early_stop {
            let c = CHILD_RUNS.lock().unwrap_or_else(|e| e.into_inner()).clone();
            let must = CHILD_MUST.lock().unwrap_or_else(|e| e.into_inner()).clone();
            if let Some(k) = c.iter().enumerate().position(|(k, n)| *n == 0 && must.get(k).copied().unwrap_or(false)) {
                let stats = EventLoops::verif_loop_stats();
                let msg = format!(
                    "child task {k} of {} (submitted by a task running on an event loop, before anybody asked for a stop) never ran although no task body has made a step for two simulated seconds; loops (state, workers, queue empty): {stats:?}",
                    c.len()
                );
                drop(r);
                fail("task-lost", msg);
            }
        }
        if r.iter().any(|t| t.ran_on != usize::MAX && t.starts > 0) && loops > 1 {
            let mut seen = std::collections::BTreeSet::new();
            for t in r.iter().filter(|t| t.starts > 0) {
                _ = seen.insert(t.ran_on);
            }
            if seen.len() > 1 {
                probe("rt.multi-loop");
            }
        }
    }
    // ---- stop
    STOP_SEEN.store(true, SeqCst);
    let t0 = now();
    crate::child::mon_enter("stop-slow|EventLoops::stop(30 s)");
    let r = EventLoops::stop(Duration::from_secs(30));
    crate::child::mon_exit();
    let took = now() - t0;
    note("stop_ms", took / 1_000_000);
    let all_done = recs().iter().all(|t| t.submit_ok != Some(true) || t.finished || t.cancelled_any);
    match r {
        Err(e) => fail("stop-failed", format!("EventLoops::stop(30 s) failed after {} ms: {e}", took / 1_000_000)),
        Ok(()) => {
            if all_done && took > 1_000_000_000 {
                fail("stop-slow", format!("every task had finished or been cancelled, yet EventLoops::stop(30 s) needed {} ms of simulated time", took / 1_000_000));
            }
        }
    }
    {
        let r = recs();
        for (i, t) in r.iter().enumerate() {
            if t.accepted_before_stop && !t.cancelled_any && !t.finished {
                let msg = format!("stop() reported success but task {i}, accepted before stop was called and never cancelled, did not run to its end (starts {})", t.starts);
                drop(r);
                fail("accepted-task-dropped", msg);
            }
        }
    }
    let late = EventLoops::submit_task(Some("late-task".into()), |_| None, None, None);
    if late.id().is_ok() {
        fail("submit-after-stop", "a task submitted after EventLoops::stop() returned was accepted".into());
    }
    drop(late);
    // ---- users must come back (timed waits by their deadline, untimed ones released)
    let t_stop = now();
    for (ui, h) in user_handles.into_iter().enumerate() {
        let tid = h.sim_tid();
        loop {
            if h.is_finished() {
                break;
            }
            let w = WAITS.lock().unwrap_or_else(|e| e.into_inner()).clone();
            let pending: Vec<&WaitRec> = w.iter().filter(|x| x.ret_ns.is_none()).collect();
            let latest_deadline = pending
                .iter()
                .map(|x| if x.timeout_ms == u64::MAX { 0 } else { x.call_ns.saturating_add(x.timeout_ms.saturating_mul(1_000_000)) })
                .max()
                .unwrap_or(0);
            let limit = t_stop.max(latest_deadline) + 1_000_000_000;
            if now() > limit && now() > t_stop + 7_000_000_000 {
                let snap = recs().clone();
                for x in &pending {
                    if snap[x.task].starts > 0 && snap[x.task].ran_on != snap[x.task].handle_loop {
                        sim::count("cause.rt.result-on-other-loop");
                    }
                    if snap[x.task].starts == 0 && snap[x.task].cancelled_any {
                        // skipped because cancelled: whichever loop skipped it stored the "cancelled"
                        // result in its own pool
                        sim::count("cause.rt.cancelled-task-skipped");
                    }
                }
                let desc: Vec<String> = pending.iter().map(|x| format!("task {} ({}; ran={} finished={} on loop {}, handle waits on loop {})", x.task, if x.timeout_ms == u64::MAX { "no timeout".to_string() } else { format!("timeout {} ms", x.timeout_ms) }, snap[x.task].starts, snap[x.task].finished, snap[x.task].ran_on, snap[x.task].handle_loop)).collect();
                fail("waiter-stuck", format!("user thread {ui} (t{tid:?}) is still blocked {} ms after EventLoops::stop() returned and past every timed wait's deadline; unreturned waits: {desc:?}", (now() - t_stop) / 1_000_000));
            }
            vstd::thread::sleep(Duration::from_millis(5));
        }
        if h.join().is_err() {
            fail("user-panic", format!("user thread {ui} panicked: {}", crate::child::last_panic()));
        }
    }
    check_waits(false);
    let r = recs().clone();
    note("tasks", r.len());
    // handles are dropped here, after the stop (their loops stay registered)
    HANDLES.lock().unwrap_or_else(|e| e.into_inner()).clear();
}

fn mon_enter_submit(ti: usize) {
    crate::child::mon_enter(&format!("call-stuck|submit_task(task {ti})"));
}

/// History checks over the recorded waits (shared by pool and rt).
fn check_waits(pool_level: bool) {
    let r = recs().clone();
    let waits = WAITS.lock().unwrap_or_else(|e| e.into_inner()).clone();
    for w in &waits {
        let t = &r[w.task];
        let (Some(ret), Some(out)) = (w.ret_ns, w.outcome.as_ref()) else { continue };
        let waited = ret - w.call_ns;
        let timeout_ns = if w.timeout_ms == u64::MAX { u64::MAX } else { w.timeout_ms.saturating_mul(1_000_000) };
        if waited > 1_000_000 {
            probe("task.wait-blocked");
        }
        let where_ = if pool_level { String::new() } else { format!(" (task ran on loop {}, the handle waits on loop {})", t.ran_on, t.handle_loop) };
        if !pool_level && t.starts > 0 && t.ran_on != t.handle_loop {
            // root-cause probe: the result was stored by another event loop than the one the handle waits on
            sim::count("cause.rt.result-on-other-loop");
            probe("rt.cross-loop");
        }
        match out {
            Ok(res) => {
                if t.starts == 0 {
                    let cancelled_msg = matches!(res, Err(m) if m.contains("cancelled")) && t.cancelled_any;
                    if !cancelled_msg && !matches!(res, Err(m) if m.contains("pool has stopped")) {
                        fail("wrong-result", format!("join on task {} returned {res:?} although the task never ran", w.task));
                    }
                } else {
                    check_own_result(w.task, t, res, "join");
                    if let Some(e) = t.end_ns {
                        let ready = e.max(w.call_ns);
                        if ret > ready + slack_ns() && !matches!(res, Err(m) if m.contains("pool has stopped")) {
                            fail("wait-late", format!("join on task {} returned {} ms after the task had finished (and the join had begun); timeout {} ms{where_}", w.task, (ret - ready) / 1_000_000, w.timeout_ms));
                        }
                    }
                }
            }
            Err(kind) => {
                if kind != "TimedOut" {
                    fail("wait-error", format!("join on task {} failed with {kind}", w.task));
                }
                if timeout_ns == u64::MAX {
                    fail("wait-timeout-untimed", format!("untimed join on task {} reported a timeout after {} ms{where_}", w.task, waited / 1_000_000));
                }
                let deadline = w.call_ns.saturating_add(timeout_ns);
                if let Some(e) = t.end_ns {
                    if e + slack_ns() < deadline && t.finished {
                        fail("wait-timeout-spurious", format!("join on task {} timed out (timeout {} ms) although the task had finished {} ms before the deadline{where_}", w.task, w.timeout_ms, (deadline - e) / 1_000_000));
                    }
                }
                if ret > deadline.saturating_add(slack_ns()) {
                    fail("wait-late", format!("join on task {} with timeout {} ms returned {} ms after its deadline", w.task, w.timeout_ms, (ret - deadline) / 1_000_000));
                }
            }
        }
        if !pool_level && t.ran_on != usize::MAX && t.starts > 0 {
            probe("rt.joined-executed-task");
        }
    }
}
