//! S-Q: the two work-steal queues (C03, C04, C05, C06).
use super::{gen_sim, Scenario, SimOpts, Tier};
use crate::child::{fail, mon_enter, mon_exit, note, probe};
use crate::json::J;
use crate::obj;
use open_coroutine_core::common::ordered_work_steal::{OrderedLocalQueue, OrderedWorkStealQueue};
use open_coroutine_core::common::work_steal::{LocalQueue, WorkStealQueue};
use std::collections::{BTreeMap, BTreeSet, VecDeque};
use std::sync::Mutex as StdMutex;
use vstd::sim::{self, Rng};

pub static SCENARIOS: [Scenario; 2] = [
    Scenario {
        name: "q_conc",
        about: "2-3 threads, each the only user of its own local queue, all using the shared queue; then drain",
        gen: gen_conc,
        body: body_conc,
        key_probes: &["q.steal", "q.spill", "q.shared-pop", "q.conc-shared"],
        wall_ms: 20_000,
        chunk: 64,
    },
    Scenario {
        name: "q_hist",
        about: "one thread operating one shared and several local queues; container-level mirror as oracle",
        gen: gen_hist,
        body: body_hist,
        key_probes: &["q.steal", "q.spill", "q.shared-pop"],
        wall_ms: 20_000,
        chunk: 64,
    },
];

const PRIOS: [i64; 8] = [i64::MIN, -2, -1, 0, 0, 1, 2, i64::MAX];

struct Sh<T>(T);
unsafe impl<T> Send for Sh<T> {}
unsafe impl<T> Sync for Sh<T> {}

enum Q {
    Plain(&'static WorkStealQueue<u64>),
    Ordered(&'static OrderedWorkStealQueue<u64>),
}

enum L {
    Plain(LocalQueue<'static, u64>),
    Ordered(OrderedLocalQueue<'static, u64>),
}

impl Q {
    fn new(kind: &str, locals: usize, cap: usize) -> Q {
        if kind == "plain" {
            Q::Plain(Box::leak(Box::new(WorkStealQueue::new(locals, cap))))
        } else {
            Q::Ordered(Box::leak(Box::new(OrderedWorkStealQueue::new(locals, cap))))
        }
    }
    fn local(&self) -> L {
        match self {
            Q::Plain(q) => L::Plain(q.local_queue()),
            Q::Ordered(q) => L::Ordered(q.local_queue()),
        }
    }
    fn push(&self, prio: i64, id: u64) {
        match self {
            Q::Plain(q) => q.push(id),
            Q::Ordered(q) => q.push_with_priority(prio, id),
        }
    }
    fn pop(&self) -> Option<u64> {
        match self {
            Q::Plain(q) => q.pop(),
            Q::Ordered(q) => q.pop(),
        }
    }
    fn len(&self) -> usize {
        match self {
            Q::Plain(q) => q.len(),
            Q::Ordered(q) => q.len(),
        }
    }
}

impl L {
    fn push(&self, prio: i64, id: u64) {
        match self {
            L::Plain(q) => q.push(id),
            L::Ordered(q) => q.push_with_priority(prio, id),
        }
    }
    fn pop(&self) -> Option<u64> {
        match self {
            L::Plain(q) => q.pop(),
            L::Ordered(q) => q.pop(),
        }
    }
}

fn step_bound(plan: &J) -> u64 {
    // generous: a legitimate call in these bounds needs a few hundred points at most
    5_000 + 300 * plan.gu("n_items")
}

/// Run one queue call under the C04 step oracle.
fn bounded<R>(name: &str, bound: u64, f: impl FnOnce() -> R) -> R {
    mon_enter(name);
    let p0 = sim::my_points();
    let r = f();
    let used = sim::my_points() - p0;
    mon_exit();
    if used > bound {
        fail(
            "call-steps",
            format!("{name} needed {used} scheduling points of its own thread (bound {bound})"),
        );
    }
    r
}

fn abort_map(kind: sim::Abort, msg: &str) -> Option<(String, String)> {
    match kind {
        sim::Abort::PointBudget | sim::Abort::TimeBudget => None, // handled through the monitored-call table
        sim::Abort::Deadlock => Some(("deadlock".into(), msg.to_string())),
        _ => None,
    }
}

// ------------------------------------------------------------------------------------------------
// q_conc

fn gen_ops(g: &mut Rng, n: usize, next_id: &mut u64, local_bias: u64) -> Vec<J> {
    let mut ops = Vec::new();
    for _ in 0..n {
        let r = g.below(100);
        let prio = *g.pick(&PRIOS);
        if r < local_bias {
            *next_id += 1;
            ops.push(J::Arr(vec!["lpush".into(), prio.into(), (*next_id).into()]));
        } else if r < local_bias + 30 {
            ops.push(J::Arr(vec!["lpop".into()]));
        } else if r < local_bias + 45 {
            *next_id += 1;
            ops.push(J::Arr(vec!["spush".into(), prio.into(), (*next_id).into()]));
        } else if r < local_bias + 60 {
            ops.push(J::Arr(vec!["spop".into()]));
        } else {
            ops.push(J::Arr(vec!["len".into()]));
        }
    }
    ops
}

fn gen_conc(g: &mut Rng, tier: Tier) -> J {
    let threads = g.range(2, 3) as usize;
    let locals = g.range(threads as u64, 4) as usize;
    let cap = *g.pick(&[1u64, 2, 3, 4, 8, 16, 64]);
    let max_ops = if tier == Tier::Quick { 40 } else { 80 };
    let mut next_id = 0u64;
    let mut ths = Vec::new();
    for i in 0..threads {
        let n = g.range(3, max_ops) as usize;
        let bias = *g.pick(&[25u64, 35, 35, 38]);
        ths.push(obj! {"local" => i, "ops" => J::Arr(gen_ops(g, n, &mut next_id, bias))});
    }
    let mut sim = gen_sim(
        g,
        SimOpts {
            max_points: 400_000,
            ..SimOpts::default()
        },
    );
    if let Some(k) = sim.get_mut("knobs") {
        k.set("num_cpus", (locals as u64).into());
    }
    obj! {
        "kind" => if g.chance(1, 2) { "plain" } else { "ordered" },
        "locals" => locals,
        "cap" => cap,
        "n_items" => next_id,
        "threads" => J::Arr(ths),
        "sim" => sim,
    }
}

#[derive(Default)]
struct Hist {
    pushed: BTreeSet<u64>,
    popped: BTreeMap<u64, (usize, u64)>,
}

static HIST: StdMutex<Option<Hist>> = StdMutex::new(None);

fn record_push(id: u64) {
    let mut h = HIST.lock().unwrap_or_else(|e| e.into_inner());
    let h = h.as_mut().expect("hist");
    if !h.pushed.insert(id) {
        crate::child::harness_error(format!("plan pushes id {id} twice"));
    }
}

fn record_pop(who: usize, id: u64) {
    let seq = sim::seq();
    let mut g = HIST.lock().unwrap_or_else(|e| e.into_inner());
    let h = g.as_mut().expect("hist");
    if !h.pushed.contains(&id) {
        drop(g);
        fail("pop-unknown", format!("thread {who} popped item {id}, which was never pushed"));
    }
    if let Some((w0, s0)) = h.popped.get(&id).copied() {
        drop(g);
        fail(
            "pop-duplicate",
            format!("item {id} popped twice: by thread {w0} at seq {s0} and by thread {who} at seq {seq}"),
        );
    }
    _ = h.popped.insert(id, (who, seq));
}

fn body_conc(plan: &J) {
    crate::child::set_abort_map(abort_map);
    crate::child::set_stuck_limit_ns(0);
    *HIST.lock().unwrap_or_else(|e| e.into_inner()) = Some(Hist::default());
    let kind = plan.gs("kind").to_string();
    let locals = plan.gus("locals").max(1);
    let cap = plan.gus("cap").max(1);
    let bound = step_bound(plan);
    let q: &'static Q = Box::leak(Box::new(Q::new(&kind, locals, cap)));
    let ls: Vec<L> = (0..locals).map(|_| q.local()).collect();
    let ls: &'static Vec<L> = Box::leak(Box::new(ls));
    let held0 = crossbeam_deque::vsim_total_held();
    sim::aux_enable(true);
    let mut handles = Vec::new();
    let nthreads = plan.ga("threads").len();
    for (ti, t) in plan.ga("threads").iter().enumerate() {
        let li = t.gus("local") % locals;
        // the contract: a local queue has exactly one user thread
        if plan.ga("threads").iter().take(ti).any(|o| o.gus("local") % locals == li) {
            continue;
        }
        let ops: Vec<J> = t.ga("ops").to_vec();
        let shq = Sh(q);
        let shl = Sh(&ls[li]);
        handles.push(vstd::thread::spawn(move || {
            let q = shq;
            let l = shl;
            for op in &ops {
                let a = op.arr();
                match a.first().map_or("", J::s) {
                    "lpush" => {
                        let (prio, id) = (a[1].i() as i64, a[2].u());
                        record_push(id);
                        bounded("local.push", bound, || l.0.push(prio, id));
                    }
                    "lpop" => {
                        if let Some(id) = bounded("local.pop", bound, || l.0.pop()) {
                            record_pop(ti, id);
                        }
                    }
                    "spush" => {
                        let (prio, id) = (a[1].i() as i64, a[2].u());
                        record_push(id);
                        bounded("shared.push", bound, || q.0.push(prio, id));
                    }
                    "spop" => {
                        if let Some(id) = bounded("shared.pop", bound, || q.0.pop()) {
                            record_pop(ti, id);
                        }
                    }
                    _ => {
                        _ = bounded("shared.len", bound, || q.0.len());
                    }
                }
            }
        }));
    }
    for h in handles {
        if h.join().is_err() {
            fail("panic-in-queue-op", format!("a queue operation panicked on a user thread: {}", crate::child::last_panic()));
        }
    }
    let r = sim::report();
    if r.switches > 2 && nthreads > 1 {
        probe("q.conc-shared");
    }
    for e in sim::aux_drain() {
        match e.kind {
            "worker.steal" => probe("q.steal"),
            "injector.pop" => probe("q.shared-pop"),
            _ => {}
        }
    }
    sim::aux_enable(false);
    // quiescence: reported length of the shared queue == items it holds
    let held = crossbeam_deque::vsim_total_held() - held0;
    let reported = q.len();
    note("shared_len_reported", reported);
    note("shared_len_actual", held);
    if reported != held {
        fail(
            "shared-len-mismatch",
            format!("all threads stopped: shared queue reports len {reported} but holds {held} items"),
        );
    }
    // drain: each local until None, then the shared queue until None
    let mut drained = Vec::new();
    for (i, l) in ls.iter().enumerate() {
        while let Some(id) = bounded("drain.local.pop", bound, || l.pop()) {
            record_pop(100 + i, id);
            drained.push(id);
        }
    }
    while let Some(id) = bounded("drain.shared.pop", bound, || q.pop()) {
        record_pop(200, id);
        drained.push(id);
    }
    let g = HIST.lock().unwrap_or_else(|e| e.into_inner());
    let h = g.as_ref().expect("hist");
    let lost: Vec<u64> = h.pushed.iter().copied().filter(|id| !h.popped.contains_key(id)).collect();
    note("pushed", h.pushed.len());
    note("drained", drained.len());
    if !lost.is_empty() {
        let left = crossbeam_deque::vsim_total_held() - held0;
        drop(g);
        fail(
            "item-lost",
            format!(
                "after the drain {} pushed item(s) were never returned: {:?} (shared injectors still hold {left})",
                lost.len(),
                &lost[..lost.len().min(8)]
            ),
        );
    }
}

// ------------------------------------------------------------------------------------------------
// q_hist: single thread, several local queues; container-level mirror

fn gen_hist(g: &mut Rng, tier: Tier) -> J {
    let locals = g.range(1, 4) as usize;
    let cap = *g.pick(&[1u64, 2, 3, 4, 8, 16, 64]);
    let mode = *g.pick(&["uniform", "uniform", "starve", "idle", "refill"]);
    let max_ops = if tier == Tier::Quick { 200 } else { 600 };
    let mut ops: Vec<J> = Vec::new();
    let mut id = 0u64;
    let push = |ops: &mut Vec<J>, q: i64, prio: i64, id: &mut u64| {
        *id += 1;
        ops.push(J::Arr(vec!["push".into(), q.into(), prio.into(), (*id).into()]));
    };
    let pop = |ops: &mut Vec<J>, q: i64| ops.push(J::Arr(vec!["pop".into(), q.into()]));
    match mode {
        "starve" => {
            // keep one local non-empty for a long run of pops while items wait in the shared queue
            let q = g.below(locals as u64) as i64;
            for _ in 0..g.range(1, 6) {
                let p = *g.pick(&PRIOS);
                push(&mut ops, -1, p, &mut id);
            }
            let rounds = g.range(70, (max_ops as u64 / 3).max(71));
            for _ in 0..rounds {
                let k = g.range(1, 2);
                for _ in 0..k {
                    let p = *g.pick(&PRIOS);
                    push(&mut ops, q, p, &mut id);
                }
                pop(&mut ops, q);
                if g.chance(1, 20) {
                    let p = *g.pick(&PRIOS);
                    push(&mut ops, -1, p, &mut id);
                }
            }
        }
        "idle" => {
            // one queue is empty while a sibling or the shared queue has work
            for _ in 0..g.range(2, 12) {
                let q = g.below(locals as u64 + 1) as i64 - 1;
                let p = *g.pick(&PRIOS);
                push(&mut ops, q, p, &mut id);
            }
            for _ in 0..g.range(4, 40) {
                let q = g.below(locals as u64) as i64;
                pop(&mut ops, q);
                if g.chance(1, 4) {
                    let q2 = g.below(locals as u64 + 1) as i64 - 1;
                    let p = *g.pick(&PRIOS);
                    push(&mut ops, q2, p, &mut id);
                }
            }
        }
        "refill" => {
            // fill a local queue, let siblings steal from it, fill it again (overflow after steals)
            let a = g.below(locals as u64) as i64;
            for _round in 0..g.range(2, 5) {
                for _ in 0..g.range(cap, cap * 2 + 2) {
                    let p = *g.pick(&PRIOS);
                    push(&mut ops, a, p, &mut id);
                }
                for _ in 0..g.range(1, 6) {
                    let b = g.below(locals as u64) as i64;
                    pop(&mut ops, b);
                }
            }
        }
        _ => {
            let n = g.range(5, max_ops as u64);
            let push_w = *g.pick(&[40u64, 50, 60]);
            for _ in 0..n {
                let q = g.below(locals as u64 + 1) as i64 - 1;
                if g.below(100) < push_w {
                    let p = *g.pick(&PRIOS);
                    push(&mut ops, q, p, &mut id);
                } else {
                    pop(&mut ops, q);
                }
            }
        }
    }
    let mut sim = gen_sim(
        g,
        SimOpts {
            concurrent: false,
            max_points: 600_000,
            ..SimOpts::default()
        },
    );
    if let Some(k) = sim.get_mut("knobs") {
        k.set("num_cpus", (locals as u64).into());
    }
    obj! {
        "kind" => if g.chance(2, 5) { "plain" } else { "ordered" },
        "locals" => locals,
        "cap" => cap,
        "mode" => mode,
        "n_items" => id,
        "ops" => J::Arr(ops),
        "sim" => sim,
    }
}

#[derive(Clone, Copy, PartialEq, Eq, Debug)]
enum Owner {
    Local(usize),
    Shared,
}

struct Cont {
    owner: Owner,
    fifo: VecDeque<u64>,
    prio: Option<i64>,
}

struct Mirror {
    conts: BTreeMap<usize, Cont>,
    prio_of: BTreeMap<u64, i64>,
}

impl Mirror {
    fn cont(&mut self, addr: usize, owner_if_new: Owner) -> &mut Cont {
        self.conts.entry(addr).or_insert(Cont {
            owner: owner_if_new,
            fifo: VecDeque::new(),
            prio: None,
        })
    }
    fn shared_items(&self) -> usize {
        self.conts.values().filter(|c| c.owner == Owner::Shared).map(|c| c.fifo.len()).sum()
    }
    fn total_items(&self) -> usize {
        self.conts.values().map(|c| c.fifo.len()).sum()
    }
    fn describe(&self) -> String {
        let mut s = String::new();
        for (a, c) in &self.conts {
            if !c.fifo.is_empty() {
                s.push_str(&format!("[{:?} prio {:?} @{:x}: {:?}] ", c.owner, c.prio, a & 0xffff, c.fifo));
            }
        }
        s
    }
}

fn body_hist(plan: &J) {
    crate::child::set_abort_map(abort_map);
    crate::child::set_stuck_limit_ns(0);
    let kind = plan.gs("kind").to_string();
    let ordered = kind != "plain";
    let locals = plan.gus("locals").max(1);
    let cap = plan.gus("cap").max(1);
    let bound = step_bound(plan);
    sim::aux_enable(true);
    let q = Q::new(&kind, locals, cap);
    let ls: Vec<L> = (0..locals).map(|_| q.local()).collect();
    let mut m = Mirror {
        conts: BTreeMap::new(),
        prio_of: BTreeMap::new(),
    };
    // plain queue: its workers are created up front, local i <-> i-th worker created
    {
        let mut i = 0usize;
        for e in sim::aux_drain() {
            if e.kind == "worker.new" {
                _ = m.cont(e.a, Owner::Local(i));
                i += 1;
            }
        }
    }
    let mut streak = vec![0u32; locals];
    let mut pushed: BTreeSet<u64> = BTreeSet::new();
    let mut popped: BTreeSet<u64> = BTreeSet::new();
    let mut pops_total = 0u64;
    for (opi, op) in plan.ga("ops").iter().enumerate() {
        let a = op.arr();
        let is_push = a.first().map_or("", J::s) == "push";
        let qi = a.get(1).map_or(-1, J::i);
        let target = if qi < 0 { Owner::Shared } else { Owner::Local(qi as usize % locals) };
        let li = match target {
            Owner::Local(i) => i,
            Owner::Shared => usize::MAX,
        };
        let shared_before = m.shared_items();
        let mut hand: VecDeque<u64> = VecDeque::new();
        let new_item: Option<u64>;
        let mut returned: Option<u64> = None;
        if is_push {
            let (prio, id) = (a[2].i() as i64, a[3].u());
            if !pushed.insert(id) {
                continue;
            }
            _ = m.prio_of.insert(id, if ordered { prio } else { 0 });
            new_item = Some(id);
            match target {
                Owner::Shared => bounded("shared.push", bound, || q.push(prio, id)),
                Owner::Local(i) => bounded("local.push", bound, || ls[i].push(prio, id)),
            }
        } else {
            new_item = None;
            pops_total += 1;
            returned = match target {
                Owner::Shared => bounded("shared.pop", bound, || q.pop()),
                Owner::Local(i) => bounded("local.pop", bound, || ls[i].pop()),
            };
        }
        // replay the container-level events of this call on the mirror
        let evs = sim::aux_drain();
        let mut new_placed = false;
        let mut source: Option<(Owner, usize)> = None;
        let mut c05_msg: Option<String> = None;
        for e in &evs {
            match e.kind {
                "worker.new" => {
                    // a worker created during a call on local i belongs to local i
                    _ = m.cont(e.a, target);
                }
                "worker.push" | "injector.push" => {
                    let owner_new = if e.kind == "injector.push" { Owner::Shared } else { target };
                    let item = if let Some(x) = hand.pop_front() {
                        if e.kind == "injector.push" {
                            probe("q.spill");
                        }
                        x
                    } else if let (Some(x), false) = (new_item, new_placed) {
                        new_placed = true;
                        x
                    } else {
                        fail("mirror-mismatch", format!("op {opi}: container received an item nobody handed over"));
                    };
                    let pr = m.prio_of.get(&item).copied();
                    let c = m.cont(e.a, owner_new);
                    if c.prio.is_none() {
                        c.prio = pr;
                    }
                    c.fifo.push_back(item);
                }
                "worker.pop" | "injector.pop" => {
                    let owner_new = if e.kind == "injector.pop" { Owner::Shared } else { target };
                    let c = m.cont(e.a, owner_new);
                    let owner = c.owner;
                    let cprio = c.prio;
                    let Some(x) = c.fifo.pop_front() else {
                        fail("mirror-mismatch", format!("op {opi}: {} on a container the mirror holds empty", e.kind));
                    };
                    if !is_push {
                        // C05 at the instant of the container pop: nothing with a smaller priority value
                        // may be resident in the same queue
                        if let Some(p) = cprio {
                            for (a2, c2) in &m.conts {
                                if *a2 != e.a && c2.owner == owner && !c2.fifo.is_empty() {
                                    if let Some(p2) = c2.prio {
                                        if p2 < p {
                                            c05_msg = Some(format!(
                                                "op {opi}: pop took item {x} (priority {p}) from {owner:?} while item {} (priority {p2}) was still waiting in the same queue",
                                                c2.fifo[0]
                                            ));
                                        }
                                    }
                                }
                            }
                        }
                        source = Some((owner, e.a));
                    }
                    if e.kind == "injector.pop" {
                        probe("q.shared-pop");
                    }
                    hand.push_back(x);
                }
                "worker.steal" => {
                    probe("q.steal");
                    let mut moved = Vec::new();
                    {
                        let src = m.cont(e.a, target);
                        for _ in 0..e.n {
                            if let Some(x) = src.fifo.pop_front() {
                                moved.push(x);
                            } else {
                                fail("mirror-mismatch", format!("op {opi}: steal of {} items from a container holding fewer", e.n));
                            }
                        }
                    }
                    let pr = moved.first().and_then(|x| m.prio_of.get(x).copied());
                    let dst = m.cont(e.b, target);
                    if dst.prio.is_none() {
                        dst.prio = pr;
                    }
                    dst.fifo.extend(moved);
                }
                _ => {}
            }
        }
        if is_push {
            if !hand.is_empty() || !new_placed {
                fail(
                    "item-lost",
                    format!("op {opi}: push returned but the item (or a displaced one) was placed nowhere: in hand {hand:?}, new placed {new_placed}"),
                );
            }
            continue;
        }
        match returned {
            Some(x) => {
                let got = hand.pop_back();
                if got != Some(x) || !hand.is_empty() {
                    fail(
                        "pop-wrong-item",
                        format!("op {opi}: pop returned {x} but the containers handed over {got:?} (left in hand {hand:?})"),
                    );
                }
                if !pushed.contains(&x) || !popped.insert(x) {
                    fail("pop-duplicate", format!("op {opi}: item {x} returned twice or never pushed"));
                }
                if let Some(msg) = c05_msg {
                    fail("priority-order", msg);
                }
                // C06(a): 61 consecutive pops on one local queue while the shared queue is non-empty
                let from_shared = matches!(source, Some((Owner::Shared, _)));
                if li != usize::MAX {
                    if shared_before == 0 || from_shared {
                        streak[li] = 0;
                    } else {
                        streak[li] += 1;
                        if streak[li] >= 61 {
                            fail(
                                "shared-starved",
                                format!(
                                    "op {opi}: {} consecutive pops on local queue {li} returned local items while the shared queue held work the whole time ({} items now)",
                                    streak[li],
                                    m.shared_items()
                                ),
                            );
                        }
                    }
                    if streak[li] >= 30 {
                        probe("q.long-local-run");
                    }
                }
                if m.shared_items() == 0 {
                    for s in &mut streak {
                        *s = 0;
                    }
                }
            }
            None => {
                if !hand.is_empty() {
                    fail("item-lost", format!("op {opi}: pop returned None after taking {hand:?} out of a container"));
                }
                // C06(b): None only if there is nothing anywhere (local pops) / nothing shared (shared pops)
                let waiting = match target {
                    Owner::Shared => m.shared_items(),
                    Owner::Local(_) => m.total_items(),
                };
                if waiting > 0 {
                    fail(
                        "false-empty",
                        format!(
                            "op {opi}: pop on {target:?} returned None while {waiting} item(s) were waiting: {}",
                            m.describe()
                        ),
                    );
                }
                probe("q.empty-pop");
            }
        }
    }
    note("pops", pops_total);
    // final drain so the run also covers C03 for the history
    for (i, l) in ls.iter().enumerate() {
        while let Some(x) = bounded("drain.local.pop", bound, || l.pop()) {
            if !pushed.contains(&x) || !popped.insert(x) {
                fail("pop-duplicate", format!("drain of local {i}: item {x} returned twice or never pushed"));
            }
        }
    }
    while let Some(x) = bounded("drain.shared.pop", bound, || q.pop()) {
        if !pushed.contains(&x) || !popped.insert(x) {
            fail("pop-duplicate", format!("drain of shared: item {x} returned twice or never pushed"));
        }
    }
    let lost: Vec<u64> = pushed.difference(&popped).copied().collect();
    if !lost.is_empty() {
        fail("item-lost", format!("after the drain {} item(s) were never returned: {:?}", lost.len(), &lost[..lost.len().min(8)]));
    }
    std::mem::forget(ls);
    std::mem::forget(q);
}
