//! S-H: hooked syscalls against a scripted kernel (C14, C15, C16, C17, C18, C19, C28).
use super::{gen_sim, Scenario, SimOpts, Tier};
use crate::child::{fail, note, probe};
use crate::json::J;
use crate::obj;
use libc::{c_int, c_void, iovec, msghdr, off_t, size_t, sockaddr, socklen_t, ssize_t};
use open_coroutine_core::common::now;
use open_coroutine_core::config::Config;
use open_coroutine_core::net::EventLoops;
use open_coroutine_core::syscall as hk;
use std::collections::VecDeque;
use std::sync::Mutex as StdMutex;
use std::time::Duration;
use vstd::sim::{self, Rng};

pub static SOCKIO: Scenario = Scenario {
    name: "sockio",
    about: "one hooked read- or write-family call on a real socketpair descriptor against a scripted kernel (partial / would-block / EINTR / EOF / error / silence), all buffer and iovec shapes, blocking modes and socket timeouts, from a plain thread or a coroutine task",
    gen: gen_sockio,
    body: body_sockio,
    key_probes: &["io.partial", "io.wouldblock", "io.intr", "io.multi-call"],
    wall_ms: 30_000,
    chunk: 1,
};

const FILL: u8 = 0xEE;
const SLICE_NS: u64 = 10_000_000;

#[derive(Clone, Copy, Debug, PartialEq, Eq)]
enum Resp {
    Partial(usize),
    WouldBlock,
    Intr,
    Eof,
    Err(i32),
}

#[derive(Clone, Debug)]
struct CallRec {
    ranges: Vec<(usize, usize)>,
    resp: Resp,
    moved: usize,
    count_arg: usize,
}

struct Kernel {
    stream: Vec<u8>,
    pos: usize,
    sink: Vec<u8>,
    script: VecDeque<Resp>,
    after: Resp,
    calls: Vec<CallRec>,
    moved: usize,
    last_errno: i32,
}

static KERNEL: StdMutex<Option<Kernel>> = StdMutex::new(None);

fn errno_set(e: i32) {
    unsafe { *libc::__errno_location() = e };
}

fn errno_get() -> i32 {
    unsafe { *libc::__errno_location() }
}

fn stream_byte(k: usize) -> u8 {
    // position-dependent, never the fill byte
    let v = ((k.wrapping_mul(2_654_435_761) >> 7) & 0xff) as u8;
    if v == FILL {
        0x11
    } else {
        v
    }
}

fn kernel_io(ranges: Vec<(usize, usize)>, count_arg: usize, write: bool) -> ssize_t {
    sim::point("kernel.call");
    let mut g = KERNEL.lock().unwrap_or_else(|e| e.into_inner());
    let k = g.as_mut().expect("kernel");
    let cap: usize = ranges.iter().map(|r| r.1).sum();
    let mut resp = k.script.pop_front().unwrap_or(k.after);
    if !write && matches!(resp, Resp::Partial(_)) && k.pos >= k.stream.len() {
        resp = Resp::Eof;
    }
    let (ret, moved) = match resp {
        Resp::Partial(n) => {
            let m = if write { n.min(cap) } else { n.min(cap).min(k.stream.len() - k.pos) };
            let mut left = m;
            for (p, l) in &ranges {
                if left == 0 {
                    break;
                }
                let c = left.min(*l);
                for i in 0..c {
                    unsafe {
                        if write {
                            k.sink.push(*((*p + i) as *const u8));
                        } else {
                            *((*p + i) as *mut u8) = k.stream[k.pos];
                            k.pos += 1;
                        }
                    }
                }
                left -= c;
            }
            if m > 0 {
                sim::count("kern.partial");
            }
            (m as ssize_t, m)
        }
        Resp::WouldBlock => {
            errno_set(libc::EAGAIN);
            k.last_errno = libc::EAGAIN;
            sim::count("kern.wouldblock");
            (-1, 0)
        }
        Resp::Intr => {
            errno_set(libc::EINTR);
            k.last_errno = libc::EINTR;
            sim::count("kern.eintr");
            (-1, 0)
        }
        Resp::Eof => {
            sim::count("kern.eof");
            (0, 0)
        }
        Resp::Err(e) => {
            errno_set(e);
            k.last_errno = e;
            sim::count("kern.error");
            (-1, 0)
        }
    };
    k.moved += moved;
    k.calls.push(CallRec {
        ranges,
        resp,
        moved,
        count_arg,
    });
    ret
}

unsafe fn iov_ranges(iov: *const iovec, cnt: c_int) -> Vec<(usize, usize)> {
    let mut v = Vec::new();
    for i in 0..cnt.max(0) as usize {
        let e = *iov.add(i);
        v.push((e.iov_base as usize, e.iov_len));
    }
    v
}

extern "C" fn k_recv(_: c_int, buf: *mut c_void, len: size_t, _: c_int) -> ssize_t {
    kernel_io(vec![(buf as usize, len)], 1, false)
}
extern "C" fn k_read(_: c_int, buf: *mut c_void, len: size_t) -> ssize_t {
    kernel_io(vec![(buf as usize, len)], 1, false)
}
extern "C" fn k_pread(_: c_int, buf: *mut c_void, len: size_t, _: off_t) -> ssize_t {
    kernel_io(vec![(buf as usize, len)], 1, false)
}
extern "C" fn k_recvfrom(_: c_int, buf: *mut c_void, len: size_t, _: c_int, _: *mut sockaddr, _: *mut socklen_t) -> ssize_t {
    kernel_io(vec![(buf as usize, len)], 1, false)
}
extern "C" fn k_readv(_: c_int, iov: *const iovec, cnt: c_int) -> ssize_t {
    kernel_io(unsafe { iov_ranges(iov, cnt) }, cnt.max(0) as usize, false)
}
extern "C" fn k_preadv(_: c_int, iov: *const iovec, cnt: c_int, _: off_t) -> ssize_t {
    kernel_io(unsafe { iov_ranges(iov, cnt) }, cnt.max(0) as usize, false)
}
extern "C" fn k_recvmsg(_: c_int, msg: *mut msghdr, _: c_int) -> ssize_t {
    let (iov, cnt) = unsafe { ((*msg).msg_iov, (*msg).msg_iovlen) };
    kernel_io(unsafe { iov_ranges(iov, cnt as c_int) }, cnt, false)
}
extern "C" fn k_send(_: c_int, buf: *const c_void, len: size_t, _: c_int) -> ssize_t {
    kernel_io(vec![(buf as usize, len)], 1, true)
}
extern "C" fn k_write(_: c_int, buf: *const c_void, len: size_t) -> ssize_t {
    kernel_io(vec![(buf as usize, len)], 1, true)
}
extern "C" fn k_pwrite(_: c_int, buf: *const c_void, len: size_t, _: off_t) -> ssize_t {
    kernel_io(vec![(buf as usize, len)], 1, true)
}
extern "C" fn k_sendto(_: c_int, buf: *const c_void, len: size_t, _: c_int, _: *const sockaddr, _: socklen_t) -> ssize_t {
    kernel_io(vec![(buf as usize, len)], 1, true)
}
extern "C" fn k_writev(_: c_int, iov: *const iovec, cnt: c_int) -> ssize_t {
    kernel_io(unsafe { iov_ranges(iov, cnt) }, cnt.max(0) as usize, true)
}
extern "C" fn k_pwritev(_: c_int, iov: *const iovec, cnt: c_int, _: off_t) -> ssize_t {
    kernel_io(unsafe { iov_ranges(iov, cnt) }, cnt.max(0) as usize, true)
}
extern "C" fn k_sendmsg(_: c_int, msg: *const msghdr, _: c_int) -> ssize_t {
    let (iov, cnt) = unsafe { ((*msg).msg_iov, (*msg).msg_iovlen) };
    kernel_io(unsafe { iov_ranges(iov.cast_const(), cnt as c_int) }, cnt, true)
}

const READ_CALLS: [&str; 7] = ["recv", "read", "recvfrom", "readv", "recvmsg", "pread", "preadv"];
const WRITE_CALLS: [&str; 7] = ["send", "write", "sendto", "writev", "sendmsg", "pwrite", "pwritev"];

fn gen_sockio(g: &mut Rng, _tier: Tier) -> J {
    let write = g.chance(2, 5);
    let call = if write { *g.pick(&WRITE_CALLS) } else { *g.pick(&READ_CALLS) };
    let vectored = matches!(call, "readv" | "recvmsg" | "preadv" | "writev" | "sendmsg" | "pwritev");
    let mut lens = Vec::new();
    if vectored {
        for _ in 0..g.range(1, 5) {
            lens.push(J::from(*g.pick(&[0u64, 1, 2, 3, 4, 7, 8, 16, 33, 64])));
        }
    } else {
        lens.push(J::from(*g.pick(&[0u64, 1, 2, 5, 8, 31, 64])));
    }
    let total: u64 = lens.iter().map(J::u).sum();
    let mut script = Vec::new();
    for _ in 0..g.below(8) {
        match g.below(10) {
            0..=4 => script.push(J::Arr(vec!["partial".into(), g.range(1, total.max(1) + 2).into()])),
            5..=6 => script.push(J::Arr(vec!["wouldblock".into()])),
            7 => script.push(J::Arr(vec!["intr".into()])),
            8 => script.push(J::Arr(vec!["eof".into()])),
            _ => script.push(J::Arr(vec!["err".into(), (*g.pick(&[libc::ECONNRESET, libc::EPIPE, libc::EBADF, libc::ENOTCONN])).into()])),
        }
    }
    let nonblocking = g.chance(1, 4);
    let timeout_ms = *g.pick(&[0u64, 0, 5, 50]);
    // when nothing bounds the wait, the script must end with something final
    let after = if nonblocking || timeout_ms > 0 {
        *g.pick(&["wouldblock", "wouldblock", "all", "eof"])
    } else {
        *g.pick(&["all", "all", "eof", "err"])
    };
    obj! {
        "call" => call,
        "write" => write,
        "lens" => J::Arr(lens),
        "script" => J::Arr(script),
        "after" => after,
        "nonblocking" => nonblocking,
        "timeout_ms" => timeout_ms,
        "caller" => if g.chance(1, 2) { "thread" } else { "coroutine" },
        "stream_len" => *g.pick(&[0u64, 3, 40, 400]),
        "sim" => gen_sim(g, SimOpts { max_points: 2_000_000, max_sim_ms: 60_000, timing: true, ..SimOpts::default() }),
    }
}

fn resp_of(j: &J) -> Resp {
    let a = j.arr();
    match a.first().map_or("", J::s) {
        "partial" => Resp::Partial(a.get(1).map_or(1, J::us).max(1)),
        "wouldblock" => Resp::WouldBlock,
        "intr" => Resp::Intr,
        "eof" => Resp::Eof,
        _ => Resp::Err(a.get(1).map_or(libc::ECONNRESET, |x| x.i() as i32)),
    }
}

struct Sh<T>(T);
unsafe impl<T> Send for Sh<T> {}

/// Run the hooked call once; returns (return value, errno right after it).
unsafe fn do_call(call: &str, fd: c_int, bufs: &mut [Vec<u8>]) -> (ssize_t, i32) {
    let mut iov: Vec<iovec> = bufs
        .iter_mut()
        .map(|b| iovec {
            iov_base: b.as_mut_ptr().cast(),
            iov_len: b.len(),
        })
        .collect();
    // the hooks treat the caller's array as exactly `cnt` elements; keep it exact
    iov.shrink_to_fit();
    let b0 = bufs[0].as_mut_ptr().cast::<c_void>();
    let l0 = bufs[0].len();
    errno_set(0);
    let r = match call {
        "recv" => hk::recv(Some(&(k_recv as extern "C" fn(c_int, *mut c_void, size_t, c_int) -> ssize_t)), fd, b0, l0, 0),
        "read" => hk::read(Some(&(k_read as extern "C" fn(c_int, *mut c_void, size_t) -> ssize_t)), fd, b0, l0),
        "pread" => hk::pread(Some(&(k_pread as extern "C" fn(c_int, *mut c_void, size_t, off_t) -> ssize_t)), fd, b0, l0, 0),
        "recvfrom" => hk::recvfrom(
            Some(&(k_recvfrom as extern "C" fn(c_int, *mut c_void, size_t, c_int, *mut sockaddr, *mut socklen_t) -> ssize_t)),
            fd,
            b0,
            l0,
            0,
            std::ptr::null_mut(),
            std::ptr::null_mut(),
        ),
        "readv" => hk::readv(Some(&(k_readv as extern "C" fn(c_int, *const iovec, c_int) -> ssize_t)), fd, iov.as_ptr(), iov.len() as c_int),
        "preadv" => hk::preadv(Some(&(k_preadv as extern "C" fn(c_int, *const iovec, c_int, off_t) -> ssize_t)), fd, iov.as_ptr(), iov.len() as c_int, 0),
        "recvmsg" => {
            let mut m: msghdr = std::mem::zeroed();
            m.msg_iov = iov.as_mut_ptr();
            m.msg_iovlen = iov.len();
            hk::recvmsg(Some(&(k_recvmsg as extern "C" fn(c_int, *mut msghdr, c_int) -> ssize_t)), fd, &raw mut m, 0)
        }
        "send" => hk::send(Some(&(k_send as extern "C" fn(c_int, *const c_void, size_t, c_int) -> ssize_t)), fd, b0.cast_const(), l0, 0),
        "write" => hk::write(Some(&(k_write as extern "C" fn(c_int, *const c_void, size_t) -> ssize_t)), fd, b0.cast_const(), l0),
        "pwrite" => hk::pwrite(Some(&(k_pwrite as extern "C" fn(c_int, *const c_void, size_t, off_t) -> ssize_t)), fd, b0.cast_const(), l0, 0),
        "sendto" => hk::sendto(
            Some(&(k_sendto as extern "C" fn(c_int, *const c_void, size_t, c_int, *const sockaddr, socklen_t) -> ssize_t)),
            fd,
            b0.cast_const(),
            l0,
            0,
            std::ptr::null(),
            0,
        ),
        "writev" => hk::writev(Some(&(k_writev as extern "C" fn(c_int, *const iovec, c_int) -> ssize_t)), fd, iov.as_ptr(), iov.len() as c_int),
        "pwritev" => hk::pwritev(Some(&(k_pwritev as extern "C" fn(c_int, *const iovec, c_int, off_t) -> ssize_t)), fd, iov.as_ptr(), iov.len() as c_int, 0),
        _ => {
            let mut m: msghdr = std::mem::zeroed();
            m.msg_iov = iov.as_mut_ptr();
            m.msg_iovlen = iov.len();
            hk::sendmsg(Some(&(k_sendmsg as extern "C" fn(c_int, *const msghdr, c_int) -> ssize_t)), fd, &raw const m, 0)
        }
    };
    let e = errno_get();
    (r, e)
}

pub fn init_runtime(loops: usize, min: usize, max: usize) {
    let cfg = Config::new(loops, 64 * 1024, min, max, 0, 0, 0, true);
    EventLoops::init(&cfg);
}

pub fn socketpair() -> (c_int, c_int) {
    let mut fds = [0 as c_int; 2];
    let r = unsafe { libc::socketpair(libc::AF_UNIX, libc::SOCK_STREAM, 0, fds.as_mut_ptr()) };
    if r != 0 {
        crate::child::harness_error("socketpair failed".into());
    }
    (fds[0], fds[1])
}

pub fn set_timeout(fd: c_int, opt: c_int, ms: u64) {
    let tv = libc::timeval {
        tv_sec: (ms / 1000) as libc::time_t,
        tv_usec: ((ms % 1000) * 1000) as libc::suseconds_t,
    };
    let r = unsafe { libc::setsockopt(fd, libc::SOL_SOCKET, opt, std::ptr::from_ref(&tv).cast(), size_of::<libc::timeval>() as socklen_t) };
    if r != 0 {
        crate::child::harness_error("setsockopt failed".into());
    }
}

fn body_sockio(plan: &J) {
    let call = plan.gs("call").to_string();
    let write = plan.gb("write");
    let lens: Vec<usize> = plan.ga("lens").iter().map(J::us).collect();
    if lens.is_empty() {
        return;
    }
    let vectored = matches!(call.as_str(), "readv" | "recvmsg" | "preadv" | "writev" | "sendmsg" | "pwritev");
    let lens: Vec<usize> = if vectored { lens } else { vec![lens[0]] };
    let total: usize = lens.iter().sum();
    let nonblocking = plan.gb("nonblocking");
    let timeout_ms = plan.gu("timeout_ms");
    let stream_len = if write { 0 } else { plan.gus("stream_len") };
    let after = match plan.gs("after") {
        "wouldblock" => Resp::WouldBlock,
        "eof" => Resp::Eof,
        "err" => Resp::Err(libc::ECONNRESET),
        _ => Resp::Partial(usize::MAX / 4),
    };
    // an unbounded wait needs a final answer
    let after = if !nonblocking && timeout_ms == 0 && after == Resp::WouldBlock { Resp::Eof } else { after };
    let fix = |r: Resp| if write && r == Resp::Eof { Resp::Err(libc::EPIPE) } else { r };
    let after = fix(after);
    *KERNEL.lock().unwrap_or_else(|e| e.into_inner()) = Some(Kernel {
        stream: (0..stream_len).map(stream_byte).collect(),
        pos: 0,
        sink: Vec::new(),
        script: plan.ga("script").iter().map(resp_of).map(fix).collect(),
        after,
        calls: Vec::new(),
        moved: 0,
        last_errno: 0,
    });
    init_runtime(1, 0, 8);
    let (fd, _peer) = socketpair();
    if timeout_ms > 0 {
        set_timeout(fd, if write { libc::SO_SNDTIMEO } else { libc::SO_RCVTIMEO }, timeout_ms);
    }
    if nonblocking {
        unsafe {
            let fl = libc::fcntl(fd, libc::F_GETFL);
            _ = libc::fcntl(fd, libc::F_SETFL, fl | libc::O_NONBLOCK);
        }
    }
    let flags_before = unsafe { libc::fcntl(fd, libc::F_GETFL) };
    // caller buffers: reads start filled with FILL, writes carry position-dependent data
    let mut bufs: Vec<Vec<u8>> = Vec::new();
    let mut off = 0usize;
    for l in &lens {
        if write {
            bufs.push((off..off + l).map(|k| stream_byte(k + 1000)).collect());
        } else {
            bufs.push(vec![FILL; *l]);
        }
        off += l;
    }
    let flat_addr: Vec<usize> = bufs.iter().flat_map(|b| (0..b.len()).map(move |i| b.as_ptr() as usize + i)).collect();
    let sent_data: Vec<u8> = bufs.iter().flatten().copied().collect();
    let coroutine = plan.gs("caller") == "coroutine";
    let t0 = now();
    let (r, e, bufs, elapsed) = if coroutine {
        let sb = Sh(bufs);
        let call2 = call.clone();
        let out: std::sync::Arc<StdMutex<Option<(ssize_t, i32, Sh<Vec<Vec<u8>>>, u64)>>> = std::sync::Arc::new(StdMutex::new(None));
        let out2 = out.clone();
        let h = EventLoops::submit_task(
            Some("io-task".into()),
            move |_| {
                let mut b = sb;
                let t = now();
                let (r, e) = unsafe { do_call(&call2, fd, &mut b.0) };
                let took = now() - t;
                *out2.lock().unwrap_or_else(|e| e.into_inner()) = Some((r, e, b, took));
                Some(1)
            },
            None,
            None,
        );
        match h.timeout_join(Duration::from_secs(50)) {
            Ok(Ok(_)) => {}
            other => fail(if nonblocking { "nonblocking-waited" } else { "hook-call-lost" }, format!("the task running the hooked {call}{} did not complete within 50 s: {other:?}; {}", if nonblocking { " on an O_NONBLOCK descriptor" } else { "" }, crate::child::last_panic())),
        }
        let (r, e, b, took) = out.lock().unwrap_or_else(|e| e.into_inner()).take().expect("result");
        (r, e, b.0, took)
    } else {
        let mut b = bufs;
        crate::child::set_stuck_limit_ns(20_000_000_000);
        crate::child::mon_enter(&format!("{}|hooked {call} (kernel keeps answering would-block)", if nonblocking { "nonblocking-waited" } else { "hook-call-lost" }));
        let (r, e) = unsafe { do_call(&call, fd, &mut b) };
        crate::child::mon_exit();
        (r, e, b, now() - t0)
    };
    let flags_after = unsafe { libc::fcntl(fd, libc::F_GETFL) };
    let g = KERNEL.lock().unwrap_or_else(|e| e.into_inner());
    let k = g.as_ref().expect("kernel");
    let m = k.moved;
    note("calls", k.calls.len());
    note("moved", m);
    note("ret", r as i64);
    if k.calls.len() > 1 {
        probe("io.multi-call");
    }
    if k.calls.iter().any(|c| c.resp == Resp::WouldBlock) {
        probe("io.wouldblock");
    }
    if k.calls.iter().any(|c| c.resp == Resp::Intr) {
        probe("io.intr");
    }
    if k.calls.iter().any(|c| matches!(c.resp, Resp::Partial(_)) && c.moved > 0 && c.moved < total) {
        probe("io.partial");
    }
    let hist: Vec<String> = k.calls.iter().map(|c| format!("{:?}->{}", c.resp, c.moved)).collect();
    // every oracle is evaluated; the failures (they belong to different properties) are reported together
    let mut fails: Vec<(String, String)> = Vec::new();
    macro_rules! flag {
        ($c:expr, $m:expr $(,)?) => {
            fails.push(($c.to_string(), $m))
        };
    }
    // ---- C18: blocking mode untouched
    if flags_before != flags_after {
        flag!("fd-mode-changed", format!("hooked {call}: fcntl(F_GETFL) was {flags_before:#x} before and {flags_after:#x} after the call (kernel responses {hist:?})"));
    }
    // ---- C17: what the kernel was handed
    let mut done = 0usize;
    for (ci, c) in k.calls.iter().enumerate() {
        let handed: Vec<usize> = c.ranges.iter().flat_map(|(p, l)| (0..*l).map(move |i| p + i)).collect();
        let want_from = done.min(flat_addr.len());
        let ok = handed.len() <= flat_addr.len() - want_from && handed[..] == flat_addr[want_from..want_from + handed.len()];
        if !ok {
            flag!(
                "iov-wrong-ranges",
                format!(
                    "hooked {call}: inner call #{ci} (after {done} of {total} bytes) was handed {} byte(s) in {} element(s) (count argument {}) that are not the caller's next unfilled bytes: ranges {:?}, caller buffers {:?}",
                    handed.len(),
                    c.ranges.len(),
                    c.count_arg,
                    c.ranges.iter().map(|(p, l)| (p - flat_addr.first().copied().unwrap_or(0).min(*p), *l)).collect::<Vec<_>>(),
                    lens
                ),
            );
        }
        if vectored && c.ranges.iter().filter(|r| r.1 > 0).count() == 0 && total > done && !c.ranges.is_empty() {
            // only empty elements although bytes remain
            flag!("iov-wrong-ranges", format!("hooked {call}: inner call #{ci} was handed only empty elements while {} byte(s) remain", total - done));
        }
        done += c.moved;
    }
    // ---- C16: bytes and return value
    if write {
        if k.sink[..] != sent_data[..m.min(sent_data.len())] || m > sent_data.len() {
            flag!("bytes-wrong", format!("hooked {call}: the kernel received {:?}, the caller's first {m} bytes are {:?}", &k.sink, &sent_data[..m.min(sent_data.len())]));
        }
    } else {
        let got: Vec<u8> = bufs.iter().flatten().copied().collect();
        let want: Vec<u8> = (0..m).map(stream_byte).chain(std::iter::repeat(FILL).take(total - m.min(total))).collect();
        if got != want {
            flag!("bytes-wrong", format!("hooked {call}: caller buffers {got:?} != stream prefix of {m} bytes followed by untouched bytes {want:?} (kernel responses {hist:?})"));
        }
    }
    let last = k.calls.last().map(|c| c.resp);
    if m > 0 {
        if r != m as ssize_t {
            flag!("count-wrong", format!("hooked {call} returned {r} (errno {e}) but {m} byte(s) were moved (kernel responses {hist:?}, lens {lens:?})"));
        }
    } else if total == 0 {
        if r != 0 {
            flag!("count-wrong", format!("hooked {call} with a zero-length request returned {r} (errno {e}), expected 0 (kernel responses {hist:?})"));
        }
    } else {
        match last {
            Some(Resp::Eof) if !write => {
                if r != 0 {
                    flag!("count-wrong", format!("hooked {call}: end of stream with nothing moved returned {r} (errno {e}), expected 0"));
                }
            }
            Some(Resp::Err(want)) => {
                if r != -1 || e != want {
                    flag!("count-wrong", format!("hooked {call}: the kernel failed with errno {want} and nothing was moved, but the call returned {r} with errno {e}"));
                }
            }
            Some(Resp::WouldBlock) | Some(Resp::Intr) | None => {
                if r != -1 || !(e == libc::EAGAIN || e == libc::EWOULDBLOCK || e == libc::EINTR || e == libc::ETIMEDOUT) {
                    flag!("count-wrong", format!("hooked {call}: nothing was moved (kernel responses {hist:?}) but the call returned {r} with errno {e}"));
                }
            }
            _ => {
                if r > 0 {
                    flag!("count-wrong", format!("hooked {call} returned {r} although nothing was moved (kernel responses {hist:?})"));
                }
            }
        }
    }
    // ---- C18: a non-blocking descriptor never waits
    let first_block = k.calls.iter().position(|c| c.resp == Resp::WouldBlock);
    if nonblocking {
        if let Some(i) = first_block {
            if k.calls.len() > i + 1 || elapsed > 1_000_000 {
                flag!(
                    "nonblocking-waited",
                    format!(
                        "hooked {call} on an O_NONBLOCK descriptor: the kernel answered would-block at inner call #{i}, but the hook made {} more call(s) and took {} us instead of returning at once (kernel responses {hist:?})",
                        k.calls.len() - i - 1,
                        elapsed / 1_000
                    ),
                );
            }
            if m == 0 && (r != -1 || !(e == libc::EAGAIN || e == libc::EWOULDBLOCK)) {
                flag!("nonblocking-waited", format!("hooked {call} on an O_NONBLOCK descriptor that would block returned {r} errno {e}, expected -1/EAGAIN"));
            }
            probe("io.nonblocking-wouldblock");
        }
    } else if timeout_ms > 0 && last == Some(Resp::WouldBlock) && k.script.is_empty() && m == 0 {
        // C19/C14 flavour: a silent peer makes the call wait for the socket's own time limit
        let want = timeout_ms * 1_000_000;
        let slack = 3 * SLICE_NS + want / 50;
        if elapsed < want || elapsed > want + slack {
            flag!("socket-timeout", format!("hooked {call}: SO_{}TIMEO is {timeout_ms} ms and the peer stayed silent, but the call returned after {} us", if write { "SND" } else { "RCV" }, elapsed / 1_000));
        }
        probe("io.timed-out");
    }
    if !fails.is_empty() {
        drop(g);
        crate::child::fail_multi(fails);
    }
    drop(g);
    unsafe {
        _ = libc::close(fd);
        _ = libc::close(_peer);
    }
}

// ------------------------------------------------------------------------------------------------
// sockopt (C19): SO_RCVTIMEO / SO_SNDTIMEO tracked per live socket

pub static SOCKOPT: Scenario = Scenario {
    name: "sockopt",
    about: "histories over <=3 descriptor slots: socketpair, hooked setsockopt(SO_RCVTIMEO/SO_SNDTIMEO), hooked I/O, limit queries, silent hooked recv, hooked close and descriptor-number reuse",
    gen: gen_sockopt,
    body: body_sockopt,
    key_probes: &["opt.set-after-io", "opt.set-twice", "opt.reuse", "opt.wait"],
    wall_ms: 30_000,
    chunk: 1,
};

fn gen_sockopt(g: &mut Rng, tier: Tier) -> J {
    let n = g.range(2, if tier == Tier::Quick { 12 } else { 24 });
    let mut ops = vec![J::Arr(vec!["open".into(), 0u64.into()])];
    let motif_at = if g.chance(1, 3) { g.below(n) } else { u64::MAX };
    for i in 0..n {
        let slot = g.below(3);
        if i == motif_at {
            // a descriptor's whole life in a row: limits cached for one or both directions (by an option
            // call or by the first transfer), close, the number handed out again, and a look at the new socket
            ops.push(J::Arr(vec!["open".into(), slot.into()]));
            for _ in 0..g.range(1, 3) {
                if g.chance(1, 4) {
                    ops.push(J::Arr(vec!["io".into(), slot.into()]));
                } else {
                    ops.push(J::Arr(vec!["setopt".into(), slot.into(), g.below(2).into(), (*g.pick(&[1u64, 20, 1000, 2500])).into()]));
                }
            }
            ops.push(J::Arr(vec!["close".into(), slot.into()]));
            ops.push(J::Arr(vec!["open".into(), slot.into()]));
            if g.chance(1, 3) {
                ops.push(J::Arr(vec!["setopt".into(), slot.into(), g.below(2).into(), (*g.pick(&[0u64, 20, 2500])).into()]));
            }
            for dir in 0..2u64 {
                ops.push(J::Arr(vec!["query".into(), slot.into(), dir.into()]));
            }
            continue;
        }
        match g.below(12) {
            0..=1 => ops.push(J::Arr(vec!["open".into(), slot.into()])),
            2..=4 => ops.push(J::Arr(vec!["setopt".into(), slot.into(), g.below(2).into(), (*g.pick(&[0u64, 1, 20, 1000, 2500])).into()])),
            5..=6 => ops.push(J::Arr(vec!["io".into(), slot.into()])),
            7..=8 => ops.push(J::Arr(vec!["query".into(), slot.into(), g.below(2).into()])),
            9 => ops.push(J::Arr(vec!["wait".into(), slot.into()])),
            _ => ops.push(J::Arr(vec!["close".into(), slot.into()])),
        }
    }
    obj! {
        "ops" => J::Arr(ops),
        "caller" => if g.chance(1, 3) { "coroutine" } else { "thread" },
        "sim" => gen_sim(g, SimOpts { max_points: 2_000_000, max_sim_ms: 120_000, timing: true, ..SimOpts::default() }),
    }
}

fn real_limit(fd: c_int, opt: c_int) -> u64 {
    let mut tv: libc::timeval = unsafe { std::mem::zeroed() };
    let mut len = size_of::<libc::timeval>() as socklen_t;
    let r = unsafe { libc::getsockopt(fd, libc::SOL_SOCKET, opt, std::ptr::from_mut(&mut tv).cast(), &raw mut len) };
    if r != 0 {
        return u64::MAX;
    }
    let ns = (tv.tv_sec as u64).saturating_mul(1_000_000_000).saturating_add((tv.tv_usec as u64).saturating_mul(1_000));
    if ns == 0 {
        u64::MAX
    } else {
        ns
    }
}

fn sockopt_ops(ops: &[J]) {
    let mut slots: [Option<(c_int, c_int)>; 3] = [None, None, None];
    let mut io_done: [bool; 3] = [false; 3];
    let mut sets: [u32; 3] = [0; 3];
    // what the caller last asked for, per slot and direction: the kernel stores it rounded up to its
    // own tick (1 ms becomes 4 ms at HZ=250), and either value is the socket's "current option"
    let mut asked: [[Option<u64>; 2]; 3] = [[None; 2]; 3];
    let mut closed_numbers: Vec<c_int> = Vec::new();
    for (oi, op) in ops.iter().enumerate() {
        let a = op.arr();
        let s = a.get(1).map_or(0, J::us) % 3;
        match a[0].s() {
            "open" => {
                if slots[s].is_none() {
                    let p = socketpair();
                    if closed_numbers.contains(&p.0) {
                        probe("opt.reuse");
                    }
                    slots[s] = Some(p);
                    io_done[s] = false;
                    sets[s] = 0;
                    asked[s] = [None; 2];
                }
            }
            "setopt" => {
                let Some((fd, _)) = slots[s] else { continue };
                let opt = if a[2].u() == 0 { libc::SO_RCVTIMEO } else { libc::SO_SNDTIMEO };
                let ms = a[3].u();
                let tv = libc::timeval {
                    tv_sec: (ms / 1000) as libc::time_t,
                    tv_usec: ((ms % 1000) * 1000) as libc::suseconds_t,
                };
                if io_done[s] {
                    probe("opt.set-after-io");
                }
                if sets[s] > 0 {
                    probe("opt.set-twice");
                }
                sets[s] += 1;
                asked[s][a[2].us() % 2] = Some(if ms == 0 { u64::MAX } else { ms * 1_000_000 });
                let r = hk::setsockopt(None, fd, libc::SOL_SOCKET, opt, std::ptr::from_ref(&tv).cast(), size_of::<libc::timeval>() as socklen_t);
                if r != 0 {
                    fail("setsockopt-failed", format!("op {oi}: hooked setsockopt on a live socket returned {r} errno {}", errno_get()));
                }
            }
            "io" => {
                let Some((fd, _)) = slots[s] else { continue };
                *KERNEL.lock().unwrap_or_else(|e| e.into_inner()) = Some(Kernel {
                    stream: (0..8).map(stream_byte).collect(),
                    pos: 0,
                    sink: Vec::new(),
                    script: VecDeque::new(),
                    after: Resp::Partial(4),
                    calls: Vec::new(),
                    moved: 0,
                    last_errno: 0,
                });
                let mut b = vec![vec![FILL; 4]];
                let (r, e) = unsafe { do_call("recv", fd, &mut b) };
                if r != 4 {
                    fail("count-wrong", format!("op {oi}: hooked recv of 4 ready bytes returned {r} errno {e}"));
                }
                io_done[s] = true;
            }
            "query" => {
                let Some((fd, _)) = slots[s] else { continue };
                let (opt, got) = if a[2].u() == 0 { (libc::SO_RCVTIMEO, hk::recv_time_limit(fd)) } else { (libc::SO_SNDTIMEO, hk::send_time_limit(fd)) };
                let want = real_limit(fd, opt);
                if got != want && Some(got) != asked[s][a[2].us() % 2] {
                    fail(
                        "limit-stale",
                        format!("op {oi}: the hook applies a {} limit of {got} ns to descriptor {fd}, the socket's current option is {want} ns (u64::MAX = unlimited)", if a[2].u() == 0 { "receive" } else { "send" }),
                    );
                }
            }
            "wait" => {
                let Some((fd, _)) = slots[s] else { continue };
                let want = real_limit(fd, libc::SO_RCVTIMEO);
                if want > 60_000_000 {
                    continue; // only short limits are waited out
                }
                *KERNEL.lock().unwrap_or_else(|e| e.into_inner()) = Some(Kernel {
                    stream: Vec::new(),
                    pos: 0,
                    sink: Vec::new(),
                    script: VecDeque::new(),
                    after: Resp::WouldBlock,
                    calls: Vec::new(),
                    moved: 0,
                    last_errno: 0,
                });
                let mut b = vec![vec![FILL; 4]];
                let t0 = now();
                let (r, e) = unsafe { do_call("recv", fd, &mut b) };
                let dt = now() - t0;
                probe("opt.wait");
                if r != -1 {
                    fail("count-wrong", format!("op {oi}: silent hooked recv returned {r} errno {e}"));
                }
                let lo = want.min(asked[s][0].unwrap_or(want));
                if dt < lo || dt > want + 3 * SLICE_NS + want / 50 {
                    fail("limit-stale", format!("op {oi}: the socket's receive timeout is {} us but a silent hooked recv returned after {} us", want / 1000, dt / 1000));
                }
                io_done[s] = true;
            }
            "close" => {
                if let Some((fd, peer)) = slots[s].take() {
                    let r = hk::close(None, fd);
                    if r != 0 {
                        fail("close-failed", format!("op {oi}: hooked close returned {r}"));
                    }
                    unsafe {
                        _ = libc::close(peer);
                    }
                    closed_numbers.push(fd);
                }
            }
            _ => {}
        }
    }
    for s in slots.iter().flatten() {
        unsafe {
            _ = libc::close(s.0);
            _ = libc::close(s.1);
        }
    }
}

fn body_sockopt(plan: &J) {
    init_runtime(1, 0, 8);
    let ops: Vec<J> = plan.ga("ops").to_vec();
    if plan.gs("caller") == "coroutine" {
        let h = EventLoops::submit_task(
            Some("sockopt-task".into()),
            move |_| {
                sockopt_ops(&ops);
                Some(1)
            },
            None,
            None,
        );
        match h.timeout_join(Duration::from_secs(100)) {
            Ok(Ok(_)) => {}
            other => fail("hook-call-lost", format!("the task running the socket-option history did not complete: {other:?}; {}", crate::child::last_panic())),
        }
    } else {
        sockopt_ops(&ops);
    }
}

// ------------------------------------------------------------------------------------------------
// timed (C14): hooked timed waits

pub static TIMED: Scenario = Scenario {
    name: "timed",
    about: "hooked sleep / usleep / nanosleep / poll / select / pthread_cond_timedwait with generated timeouts (zero .. seconds, invalid fields) from a plain thread and from a coroutine task; inner poll/select report nothing ready, inner cond wait sleeps to its abstime",
    gen: gen_timed,
    body: body_timed,
    key_probes: &[],
    wall_ms: 30_000,
    chunk: 1,
};

fn gen_timed(g: &mut Rng, _tier: Tier) -> J {
    let call = *g.pick(&["sleep", "usleep", "usleep", "nanosleep", "nanosleep", "poll", "poll", "select", "select", "cond", "cond"]);
    let ns: u64 = match call {
        "sleep" => *g.pick(&[0u64, 1_000_000_000, 3_000_000_000]),
        "poll" => *g.pick(&[0u64, 1_000_000, 7_000_000, 10_000_000, 35_000_000, 1_000_000_000, 3_000_000_000]),
        _ => *g.pick(&[0u64, 1_000, 999_000, 1_000_000, 7_000_000, 10_000_000, 35_000_000, 1_000_000_000, 3_000_000_000]),
    };
    // Linux normalises a select() timeval whose tv_usec is 1e6 or more instead of rejecting it
    let invalid = if matches!(call, "nanosleep" | "select" | "cond") && g.chance(1, 6) { *g.pick(if call == "select" { &["neg_sec", "neg_sub", "neg_sub"] } else { &["neg_sec", "neg_sub", "big_sub"] }) } else { "" };
    obj! {
        "call" => call,
        "ns" => ns,
        "invalid" => invalid,
        "caller" => if g.chance(1, 2) { "thread" } else { "coroutine" },
        "busy_sibling" => g.chance(1, 4),
        // coroutine callers: an earlier hooked recv on a silent socket has timed out (its descriptor stays
        // registered for this coroutine) and the socket becomes readable in the middle of the timed wait
        "stale_event" => g.chance(1, 3),
        "write_at_pct" => g.range(5, 90),
        "sim" => gen_sim(g, SimOpts { max_points: 3_000_000, max_sim_ms: 60_000, stall: false, timing: true, ..SimOpts::default() }),
    }
}

extern "C" fn k_poll(_: *mut libc::pollfd, _: libc::nfds_t, _: c_int) -> c_int {
    sim::point("kernel.poll");
    0
}
extern "C" fn k_select(_: c_int, _: *mut libc::fd_set, _: *mut libc::fd_set, _: *mut libc::fd_set, tv: *mut libc::timeval) -> c_int {
    sim::point("kernel.select");
    if !tv.is_null() {
        let t = unsafe { *tv };
        if t.tv_sec < 0 || t.tv_usec < 0 {
            errno_set(libc::EINVAL);
            return -1;
        }
    }
    0
}
extern "C" fn k_cond_timedwait(_: *mut libc::pthread_cond_t, _: *mut libc::pthread_mutex_t, abs: *const libc::timespec) -> c_int {
    sim::point("kernel.cond_timedwait");
    let a = unsafe { *abs };
    if a.tv_sec < 0 || a.tv_nsec < 0 || a.tv_nsec > 999_999_999 {
        return libc::EINVAL;
    }
    let t = (a.tv_sec as u64).saturating_mul(1_000_000_000).saturating_add(a.tv_nsec as u64);
    let n = now();
    if t > n {
        vstd::thread::sleep(Duration::from_nanos(t - n));
    }
    libc::ETIMEDOUT
}

/// returns (return code, errno, elapsed ns)
fn timed_call(call: &str, ns: u64, invalid: &str) -> (i64, i32, u64) {
    errno_set(0);
    let t0 = now();
    let (sec, sub_ns) = ((ns / 1_000_000_000) as i64, (ns % 1_000_000_000) as i64);
    let r: i64 = match call {
        "sleep" => i64::from(hk::sleep(None, (ns / 1_000_000_000) as libc::c_uint)),
        "usleep" => i64::from(hk::usleep(None, (ns / 1_000) as libc::c_uint)),
        "nanosleep" => {
            let (s, n) = match invalid {
                "neg_sec" => (-1, sub_ns),
                "neg_sub" => (sec, -1),
                "big_sub" => (sec, 1_000_000_000),
                _ => (sec, sub_ns),
            };
            let rq = libc::timespec { tv_sec: s, tv_nsec: n };
            let mut rm = libc::timespec { tv_sec: 7, tv_nsec: 7 };
            i64::from(hk::nanosleep(None, &raw const rq, &raw mut rm))
        }
        "poll" => i64::from(hk::poll(
            Some(&(k_poll as extern "C" fn(*mut libc::pollfd, libc::nfds_t, c_int) -> c_int)),
            std::ptr::null_mut(),
            0,
            (ns / 1_000_000) as c_int,
        )),
        "select" => {
            let (s, u) = match invalid {
                "neg_sec" => (-1, sub_ns / 1000),
                "neg_sub" => (sec, -1),
                _ => (sec, sub_ns / 1000),
            };
            let mut tv = libc::timeval { tv_sec: s, tv_usec: u };
            i64::from(hk::select(
                Some(&(k_select as extern "C" fn(c_int, *mut libc::fd_set, *mut libc::fd_set, *mut libc::fd_set, *mut libc::timeval) -> c_int)),
                0,
                std::ptr::null_mut(),
                std::ptr::null_mut(),
                std::ptr::null_mut(),
                &raw mut tv,
            ))
        }
        _ => {
            let abs = now().saturating_add(ns);
            let (s, n) = match invalid {
                "neg_sec" => (-1, 0),
                "neg_sub" => ((abs / 1_000_000_000) as i64, -1),
                "big_sub" => ((abs / 1_000_000_000) as i64, 1_000_000_000),
                _ => ((abs / 1_000_000_000) as i64, (abs % 1_000_000_000) as i64),
            };
            let ts = libc::timespec { tv_sec: s, tv_nsec: n };
            let mut cond: libc::pthread_cond_t = libc::PTHREAD_COND_INITIALIZER;
            let mut mtx: libc::pthread_mutex_t = libc::PTHREAD_MUTEX_INITIALIZER;
            i64::from(hk::pthread_cond_timedwait(
                Some(&(k_cond_timedwait as extern "C" fn(*mut libc::pthread_cond_t, *mut libc::pthread_mutex_t, *const libc::timespec) -> c_int)),
                &raw mut cond,
                &raw mut mtx,
                &raw const ts,
            ))
        }
    };
    let e = errno_get();
    (r, e, now() - t0)
}

fn body_timed(plan: &J) {
    init_runtime(1, 0, 8);
    let call = plan.gs("call").to_string();
    let ns = plan.gu("ns");
    let mut invalid = plan.gs("invalid").to_string();
    if call == "select" && invalid == "big_sub" {
        invalid.clear();
    }
    let coroutine = plan.gs("caller") == "coroutine";
    let busy = plan.gb("busy_sibling");
    let stop_flag = std::sync::Arc::new(std::sync::atomic::AtomicBool::new(false));
    let mut sib = None;
    if busy {
        let sf = stop_flag.clone();
        sib = Some(EventLoops::submit_task(
            Some("busy-sibling".into()),
            move |_| {
                let mut n = 0usize;
                while !sf.load(std::sync::atomic::Ordering::SeqCst) && n < 100_000 {
                    sim::cpu_work(500_000, 100_000);
                    if let Some(s) = open_coroutine_core::scheduler::SchedulableSuspender::current() {
                        s.suspend();
                    }
                    n += 1;
                }
                Some(n)
            },
            None,
            None,
        ));
        probe("timed.busy-sibling");
    }
    let (r, e, dt) = if coroutine {
        let out = std::sync::Arc::new(StdMutex::new(None));
        let o2 = out.clone();
        let (c2, i2) = (call.clone(), invalid.clone());
        let stale = plan.gb("stale_event") && invalid.is_empty() && ns >= 1_000_000;
        let pair = if stale { Some(socketpair()) } else { None };
        let began = std::sync::Arc::new(std::sync::atomic::AtomicU64::new(0));
        let began2 = began.clone();
        let h = EventLoops::submit_task(
            Some("timed-task".into()),
            move |_| {
                if let Some((fd, _)) = pair {
                    // times out after 5 ms and leaves the descriptor registered with this coroutine's token
                    set_timeout(fd, libc::SO_RCVTIMEO, 5);
                    let mut b = [0u8; 1];
                    let r0 = hk::recv(None, fd, b.as_mut_ptr().cast(), 1, 0);
                    if r0 != -1 {
                        crate::child::harness_error(format!("prelude recv on a silent socket returned {r0}"));
                    }
                    probe("timed.stale-registration");
                }
                began2.store(now(), std::sync::atomic::Ordering::SeqCst);
                *o2.lock().unwrap_or_else(|e| e.into_inner()) = Some(timed_call(&c2, ns, &i2));
                Some(1)
            },
            None,
            None,
        );
        if let Some((_, peer)) = pair {
            // make the registered descriptor readable in the middle of the timed wait
            let t_wait = now();
            while began.load(std::sync::atomic::Ordering::SeqCst) == 0 && now() - t_wait < 5_000_000_000 {
                vstd::thread::sleep(Duration::from_micros(200));
            }
            vstd::thread::sleep(Duration::from_nanos(ns / 100 * plan.gu("write_at_pct").clamp(1, 95)));
            _ = unsafe { libc::write(peer, [7u8].as_ptr().cast(), 1) };
            mio::vsim_check_ready();
            sim::count("kern.readiness");
        }
        match h.timeout_join(Duration::from_secs(40)) {
            Ok(Ok(_)) => {}
            other => fail("hook-call-lost", format!("the task running hooked {call}({ns} ns) did not complete within 40 s: {other:?}; {}", crate::child::last_panic())),
        }
        let x = out.lock().unwrap_or_else(|e| e.into_inner()).take().expect("result");
        x
    } else {
        timed_call(&call, ns, &invalid)
    };
    stop_flag.store(true, std::sync::atomic::Ordering::SeqCst);
    if let Some(h) = sib {
        _ = h.timeout_join(Duration::from_secs(5));
    }
    note("elapsed_us", dt / 1000);
    note("ret", r);
    if !invalid.is_empty() {
        // native behaviour: rejected at once with EINVAL
        let (want_r, want_e): (i64, i32) = if call == "cond" { (i64::from(libc::EINVAL), 0) } else { (-1, libc::EINVAL) };
        let ok = r == want_r && (call == "cond" || e == want_e) && dt < 1_000_000;
        if !ok {
            fail("invalid-time-accepted", format!("hooked {call} with an invalid time argument ({invalid}) returned {r} errno {e} after {} us; the native call returns {want_r}{} at once", dt / 1000, if call == "cond" { String::new() } else { " with EINVAL".to_string() }));
        }
        probe("timed.invalid");
        return;
    }
    // what was actually requested (unit truncation of the call itself)
    let req = match call.as_str() {
        "sleep" => ns / 1_000_000_000 * 1_000_000_000,
        "usleep" | "select" => ns / 1_000 * 1_000,
        "poll" => ns / 1_000_000 * 1_000_000,
        _ => ns,
    };
    let slack = 25_000_000 + req / 50 + if busy { 5_000_000 } else { 0 };
    if dt < req {
        fail("returned-early", format!("hooked {call} asked to wait {} us returned after {} us ({} caller)", req / 1000, dt / 1000, plan.gs("caller")));
    }
    if dt > req + slack {
        fail("returned-late", format!("hooked {call} asked to wait {} us returned after {} us, more than the {} us of slack ({} caller)", req / 1000, dt / 1000, slack / 1000, plan.gs("caller")));
    }
    let want_r: i64 = if call == "cond" { i64::from(libc::ETIMEDOUT) } else { 0 };
    if r != want_r {
        fail("wrong-return", format!("hooked {call} returned {r} (errno {e}), the native call returns {want_r} when the time runs out"));
    }
}

// ------------------------------------------------------------------------------------------------
// sleepers (C15): blocked coroutines do not stall their event loop

pub static SLEEPERS: Scenario = Scenario {
    name: "sleepers",
    about: "one event loop: N tasks each in a hooked sleep of d (and optionally tasks in hooked recv on silent sockets) plus a computing task; all sleepers finish in about d, the computing task keeps progressing",
    gen: gen_sleepers,
    body: body_sleepers,
    key_probes: &[],
    wall_ms: 30_000,
    chunk: 1,
};

fn gen_sleepers(g: &mut Rng, _tier: Tier) -> J {
    let n = g.range(1, 8);
    let mut ds = Vec::new();
    for _ in 0..n {
        ds.push(J::from(*g.pick(&[5u64, 10, 20, 50, 100, 200])));
    }
    obj! {
        "sleep_ms" => J::Arr(ds),
        "kind" => *g.pick(&["usleep", "nanosleep", "usleep"]),
        "sibling" => g.chance(2, 3),
        "receivers" => g.below(3),
        // a task that arrives while every worker is already asleep (0 = none)
        "late_after_ms" => *g.pick(&[0u64, 0, 1, 3, 8, 30]),
        "sim" => gen_sim(g, SimOpts { max_points: 4_000_000, max_sim_ms: 30_000, timing: true, ..SimOpts::default() }),
    }
}

fn body_sleepers(plan: &J) {
    init_runtime(1, 0, 65536);
    let ds: Vec<u64> = plan.ga("sleep_ms").iter().map(J::u).collect();
    let n = ds.len();
    let kind = plan.gs("kind").to_string();
    let remaining = std::sync::Arc::new(std::sync::atomic::AtomicUsize::new(n));
    let done_at: std::sync::Arc<StdMutex<Vec<Option<u64>>>> = std::sync::Arc::new(StdMutex::new(vec![None; n]));
    let progress = std::sync::Arc::new(std::sync::atomic::AtomicUsize::new(0));
    let mut socks = Vec::new();
    let mut handles = Vec::new();
    let t0 = now();
    // receivers blocked on silent sockets (real kernel) with a 300 ms receive timeout
    for _ in 0..plan.gu("receivers") {
        let (fd, peer) = socketpair();
        set_timeout(fd, libc::SO_RCVTIMEO, 300);
        socks.push((fd, peer));
        handles.push(EventLoops::submit_task(
            None,
            move |_| {
                let mut b = [0u8; 4];
                let r = hk::recv(None, fd, b.as_mut_ptr().cast(), 4, 0);
                Some(usize::from(r >= 0))
            },
            None,
            None,
        ));
        probe("sleepers.receiver");
    }
    for (i, d) in ds.iter().enumerate() {
        let (rem, da, d, kind) = (remaining.clone(), done_at.clone(), *d, kind.clone());
        handles.push(EventLoops::submit_task(
            None,
            move |_| {
                if kind == "usleep" {
                    _ = hk::usleep(None, (d * 1000) as libc::c_uint);
                } else {
                    let rq = libc::timespec { tv_sec: 0, tv_nsec: (d * 1_000_000) as i64 };
                    _ = hk::nanosleep(None, &raw const rq, std::ptr::null_mut());
                }
                da.lock().unwrap_or_else(|e| e.into_inner())[i] = Some(now());
                _ = rem.fetch_sub(1, std::sync::atomic::Ordering::SeqCst);
                Some(i)
            },
            None,
            None,
        ));
    }
    let sibling = plan.gb("sibling");
    if sibling {
        let (rem, pr) = (remaining.clone(), progress.clone());
        handles.push(EventLoops::submit_task(
            None,
            move |_| {
                while rem.load(std::sync::atomic::Ordering::SeqCst) > 0 && pr.load(std::sync::atomic::Ordering::SeqCst) < 100_000 {
                    sim::cpu_work(1_000_000, 100_000);
                    _ = pr.fetch_add(1, std::sync::atomic::Ordering::SeqCst);
                    if let Some(s) = open_coroutine_core::scheduler::SchedulableSuspender::current() {
                        s.suspend();
                    }
                }
                Some(0)
            },
            None,
            None,
        ));
    }
    let dmax = ds.iter().copied().max().unwrap_or(0);
    let dmin = ds.iter().copied().min().unwrap_or(0);
    // a latecomer: submitted when the sleepers are asleep, it must be picked up by the loop's next slice,
    // not when the first sleeper wakes
    let late_ms = plan.gu("late_after_ms");
    let mut slept = 0;
    if late_ms > 0 && late_ms + 40 < dmin {
        vstd::thread::sleep(Duration::from_millis(late_ms));
        slept = late_ms;
        let started = std::sync::Arc::new(std::sync::atomic::AtomicU64::new(0));
        let st2 = started.clone();
        let t_sub = now();
        handles.push(EventLoops::submit_task(
            Some("latecomer".into()),
            move |_| {
                st2.store(now(), std::sync::atomic::Ordering::SeqCst);
                Some(1)
            },
            None,
            None,
        ));
        probe("sleepers.latecomer");
        vstd::thread::sleep(Duration::from_millis(30));
        slept += 30;
        let st = started.load(std::sync::atomic::Ordering::SeqCst);
        if st == 0 || st - t_sub > 25_000_000 {
            fail(
                "loop-stalled",
                format!(
                    "{n} tasks sleep {ds:?} ms on one event loop; a task submitted {late_ms} ms later, while they were all asleep, {} (the loop's slice is 10 ms)",
                    if st == 0 { "had not started 30 ms after its submission".to_string() } else { format!("started only {} us after its submission", (st - t_sub) / 1000) }
                ),
            );
        }
    }
    vstd::thread::sleep(Duration::from_millis((dmax + 60 + n as u64).saturating_sub(slept)));
    let da = done_at.lock().unwrap_or_else(|e| e.into_inner()).clone();
    for (i, d) in ds.iter().enumerate() {
        let bound = d * 1_000_000 + 45_000_000 + n as u64 * 1_000_000 + if sibling { 2 * d * 10_000 } else { 0 };
        match da[i] {
            None => fail("loop-stalled", format!("{n} tasks sleep {ds:?} ms on one event loop: sleeper {i} ({d} ms) has not finished {} ms after submission", (now() - t0) / 1_000_000)),
            Some(t) => {
                if t - t0 > bound {
                    fail("loop-stalled", format!("{n} tasks sleep {ds:?} ms on one event loop: sleeper {i} ({d} ms) finished after {} ms (bound {} ms)", (t - t0) / 1_000_000, bound / 1_000_000));
                }
                if t - t0 < d * 1_000_000 {
                    fail("returned-early", format!("sleeper {i} asked for {d} ms and finished after {} us", (t - t0) / 1000));
                }
            }
        }
    }
    if sibling {
        let p = progress.load(std::sync::atomic::Ordering::SeqCst) as u64;
        note("sibling_progress", p);
        if p < dmin / 4 {
            fail("loop-stalled", format!("while {n} tasks slept (shortest {dmin} ms), the computing task on the same event loop made only {p} steps of 1 ms"));
        }
    }
    note("sleepers", n);
    // let the receivers time out, then tidy up
    for h in handles {
        _ = h.timeout_join(Duration::from_millis(500));
    }
    for (a, b) in socks {
        unsafe {
            _ = libc::close(a);
            _ = libc::close(b);
        }
    }
}

// ------------------------------------------------------------------------------------------------
// connio (C18, connection-establishing calls): connect / accept / accept4 over a scripted kernel

pub static CONNIO: Scenario = Scenario {
    name: "connio",
    about: "one hooked connect / accept / accept4 on a real descriptor (a connected socketpair end or a fresh unconnected TCP socket) whose inner call is scripted (success at once / in progress or would-block / EINTR / hard error), blocking or O_NONBLOCK, with and without a socket time limit, from a plain thread or a coroutine task",
    gen: gen_connio,
    body: body_connio,
    key_probes: &["conn.immediate-ok", "conn.inprogress"],
    wall_ms: 30_000,
    chunk: 1,
};

fn gen_connio(g: &mut Rng, _tier: Tier) -> J {
    let call = *g.pick(&["connect", "connect", "accept", "accept4"]);
    let nonblocking = g.chance(1, 3);
    let mut script = Vec::new();
    for _ in 0..g.below(4) {
        match g.below(8) {
            0..=2 => script.push(J::Arr(vec!["block".into()])),
            3..=4 => script.push(J::Arr(vec!["intr".into()])),
            5 => script.push(J::Arr(vec!["err".into(), (*g.pick(&[libc::ECONNREFUSED, libc::ENETUNREACH, libc::EMFILE, libc::ECONNABORTED])).into()])),
            _ => script.push(J::Arr(vec!["ok".into()])),
        }
    }
    let timeout_ms = *g.pick(&[0u64, 0, 5, 30]);
    // a fresh (never connected) socket keeps answering "not connected" to the hook's own probe: only with
    // something that bounds the call
    let fresh = call == "connect" && (nonblocking || timeout_ms > 0) && g.chance(1, 2);
    let after = if nonblocking || timeout_ms > 0 { *g.pick(&["block", "ok", "err"]) } else { *g.pick(&["ok", "ok", "err"]) };
    obj! {
        "call" => call,
        "script" => J::Arr(script),
        "after" => after,
        "nonblocking" => nonblocking,
        "timeout_ms" => timeout_ms,
        "fresh" => fresh,
        "caller" => if g.chance(1, 2) { "thread" } else { "coroutine" },
        "sim" => gen_sim(g, SimOpts { max_points: 2_000_000, max_sim_ms: 60_000, timing: true, ..SimOpts::default() }),
    }
}

#[derive(Clone, Copy, Debug, PartialEq)]
enum CResp {
    Ok,
    Block,
    Intr,
    Err(i32),
}

struct CKernel {
    script: VecDeque<CResp>,
    after: CResp,
    connect: bool,
    calls: Vec<CResp>,
}

static CKERNEL: StdMutex<Option<CKernel>> = StdMutex::new(None);
const ACCEPTED_FD: c_int = 7777;

fn ck_answer() -> c_int {
    sim::point("kernel.conn");
    let mut g = CKERNEL.lock().unwrap_or_else(|e| e.into_inner());
    let k = g.as_mut().expect("ckernel");
    let r = k.script.pop_front().unwrap_or(k.after);
    k.calls.push(r);
    match r {
        CResp::Ok => {
            if k.connect {
                0
            } else {
                ACCEPTED_FD
            }
        }
        CResp::Block => {
            errno_set(if k.connect { libc::EINPROGRESS } else { libc::EAGAIN });
            -1
        }
        CResp::Intr => {
            errno_set(libc::EINTR);
            -1
        }
        CResp::Err(e) => {
            errno_set(e);
            -1
        }
    }
}
extern "C" fn k_connect(_: c_int, _: *const libc::sockaddr, _: socklen_t) -> c_int {
    ck_answer()
}
extern "C" fn k_accept(_: c_int, _: *mut libc::sockaddr, _: *mut socklen_t) -> c_int {
    ck_answer()
}
extern "C" fn k_accept4(_: c_int, _: *mut libc::sockaddr, _: *mut socklen_t, _: c_int) -> c_int {
    ck_answer()
}

fn cresp_of(j: &J) -> CResp {
    let a = j.arr();
    match a.first().map_or("", J::s) {
        "ok" => CResp::Ok,
        "block" => CResp::Block,
        "intr" => CResp::Intr,
        _ => CResp::Err(a.get(1).map_or(libc::ECONNREFUSED, |x| x.i() as i32)),
    }
}

fn conn_call(call: &str, fd: c_int) -> (c_int, i32, u64) {
    errno_set(0);
    let t = now();
    let mut addr: libc::sockaddr_in = unsafe { std::mem::zeroed() };
    addr.sin_family = libc::AF_INET as libc::sa_family_t;
    addr.sin_port = 9u16.to_be();
    addr.sin_addr.s_addr = u32::from_be_bytes([127, 0, 0, 1]).to_be();
    let mut alen = size_of::<libc::sockaddr_in>() as socklen_t;
    let r = match call {
        "connect" => hk::connect(
            Some(&(k_connect as extern "C" fn(c_int, *const libc::sockaddr, socklen_t) -> c_int)),
            fd,
            std::ptr::from_ref(&addr).cast(),
            alen,
        ),
        "accept" => hk::accept(
            Some(&(k_accept as extern "C" fn(c_int, *mut libc::sockaddr, *mut socklen_t) -> c_int)),
            fd,
            std::ptr::from_mut(&mut addr).cast(),
            &raw mut alen,
        ),
        _ => hk::accept4(
            Some(&(k_accept4 as extern "C" fn(c_int, *mut libc::sockaddr, *mut socklen_t, c_int) -> c_int)),
            fd,
            std::ptr::from_mut(&mut addr).cast(),
            &raw mut alen,
            0,
        ),
    };
    let e = errno_get();
    (r, e, now() - t)
}

fn body_connio(plan: &J) {
    init_runtime(1, 0, 8);
    let call = plan.gs("call").to_string();
    let connect = call == "connect";
    let nonblocking = plan.gb("nonblocking");
    let timeout_ms = plan.gu("timeout_ms");
    let fresh = plan.gb("fresh") && connect;
    let (fd, peer) = if fresh {
        let s = unsafe { libc::socket(libc::AF_INET, libc::SOCK_STREAM, 0) };
        if s < 0 {
            crate::child::harness_error("socket failed".into());
        }
        (s, -1)
    } else {
        socketpair()
    };
    if timeout_ms > 0 {
        set_timeout(fd, if connect { libc::SO_SNDTIMEO } else { libc::SO_RCVTIMEO }, timeout_ms);
    }
    if !connect && !fresh {
        // make the listening descriptor look readable to the poller, as a pending connection would
        _ = unsafe { libc::write(peer, [1u8].as_ptr().cast(), 1) };
    }
    if nonblocking {
        unsafe {
            let fl = libc::fcntl(fd, libc::F_GETFL);
            _ = libc::fcntl(fd, libc::F_SETFL, fl | libc::O_NONBLOCK);
        }
    }
    let flags_before = unsafe { libc::fcntl(fd, libc::F_GETFL) };
    *CKERNEL.lock().unwrap_or_else(|e| e.into_inner()) = Some(CKernel {
        script: plan.ga("script").iter().map(cresp_of).collect(),
        after: cresp_of(&J::Arr(vec![plan.gs("after").into(), libc::ECONNREFUSED.into()])),
        connect,
        calls: Vec::new(),
    });
    let class_lost = if nonblocking { "nonblocking-waited" } else { "hook-call-lost" };
    let (r, e, dt) = if plan.gs("caller") == "coroutine" {
        let out = std::sync::Arc::new(StdMutex::new(None));
        let o2 = out.clone();
        let c2 = call.clone();
        let h = EventLoops::submit_task(
            Some("conn-task".into()),
            move |_| {
                *o2.lock().unwrap_or_else(|e| e.into_inner()) = Some(conn_call(&c2, fd));
                Some(1)
            },
            None,
            None,
        );
        match h.timeout_join(Duration::from_secs(40)) {
            Ok(Ok(_)) => {}
            other => fail(class_lost, format!("the task running the hooked {call} did not complete within 40 s: {other:?}; {}", crate::child::last_panic())),
        }
        let x = out.lock().unwrap_or_else(|e| e.into_inner()).take().expect("result");
        x
    } else {
        crate::child::set_stuck_limit_ns(20_000_000_000);
        crate::child::mon_enter(&format!("{class_lost}|hooked {call}"));
        let x = conn_call(&call, fd);
        crate::child::mon_exit();
        x
    };
    let flags_after = unsafe { libc::fcntl(fd, libc::F_GETFL) };
    let g = CKERNEL.lock().unwrap_or_else(|e| e.into_inner());
    let k = g.as_ref().expect("ckernel");
    let hist = format!("{:?}", k.calls);
    note("inner_calls", k.calls.len());
    // ---- the caller's blocking mode survives every outcome
    if flags_after != flags_before {
        fail(
            "fd-mode-changed",
            format!("hooked {call} (returned {r}, errno {e}; kernel responses {hist}) left the descriptor with flags {flags_after:#x}, the caller had set {flags_before:#x} (O_NONBLOCK = {:#x})", libc::O_NONBLOCK),
        );
    }
    let first = k.calls.first().copied();
    let want_ok = if connect { 0 } else { ACCEPTED_FD };
    // ---- a non-blocking descriptor never waits
    if nonblocking {
        if let Some(i) = k.calls.iter().position(|c| *c == CResp::Block) {
            if k.calls.len() > i + 1 || dt > 1_000_000 {
                fail("nonblocking-waited", format!("hooked {call} on an O_NONBLOCK descriptor: the kernel answered {} at inner call #{i}, but the hook made {} more call(s) and took {} us (kernel responses {hist})", if connect { "EINPROGRESS" } else { "EAGAIN" }, k.calls.len() - i - 1, dt / 1000));
            }
            let want_e = if connect { libc::EINPROGRESS } else { libc::EAGAIN };
            if r != -1 || !(e == want_e || e == libc::EWOULDBLOCK) {
                fail("nonblocking-waited", format!("hooked {call} on an O_NONBLOCK descriptor that would block returned {r} errno {e}, expected -1 errno {want_e}"));
            }
            probe("conn.nonblocking");
        }
    }
    // ---- outcomes
    match first {
        Some(CResp::Ok) => {
            probe("conn.immediate-ok");
            if r != want_ok {
                fail("conn-wrong-result", format!("hooked {call}: the kernel succeeded at once but the call returned {r} errno {e}"));
            }
        }
        Some(CResp::Err(x)) => {
            if r != -1 || e != x {
                fail("conn-wrong-result", format!("hooked {call}: the kernel failed at once with errno {x} but the call returned {r} errno {e}"));
            }
        }
        Some(CResp::Block) => probe("conn.inprogress"),
        _ => {}
    }
    if k.calls.iter().all(|c| matches!(c, CResp::Intr | CResp::Block)) && r >= 0 && !(connect && !fresh) {
        fail("conn-wrong-result", format!("hooked {call} returned {r} although the kernel never reported success (kernel responses {hist})"));
    }
    drop(g);
    unsafe {
        _ = libc::close(fd);
        if peer >= 0 {
            _ = libc::close(peer);
        }
    }
}
