//! Which scenarios decide which property, with what share of the budget, and which violation
//! classes of a scenario count against the property.
use crate::scen::Tier;

pub struct Part {
    pub scenario: &'static str,
    /// simulated runs at the quick / thorough tier (also capped by wall time)
    pub quick_runs: u64,
    pub thorough_runs: u64,
    /// violation classes of this scenario that belong to this property ("*" = all)
    pub classes: &'static [&'static str],
}

pub struct Prop {
    pub id: &'static str,
    pub level: &'static str,
    pub parts: &'static [Part],
    pub quick_wall_s: u64,
    pub thorough_wall_s: u64,
    pub rule: &'static str,
    pub assumptions: &'static [&'static str],
    pub real: &'static [&'static str],
    pub stub: &'static [&'static str],
}

impl Prop {
    pub fn runs(&self, p: &Part, tier: Tier) -> u64 {
        match tier {
            Tier::Quick => p.quick_runs,
            Tier::Thorough => p.thorough_runs,
        }
    }
    pub fn wall_s(&self, tier: Tier) -> u64 {
        match tier {
            Tier::Quick => self.quick_wall_s,
            Tier::Thorough => self.thorough_wall_s,
        }
    }
}

const Q_REAL: &[&str] = &[
    "core/src/common/work_steal.rs",
    "core/src/common/ordered_work_steal.rs",
    "st3 0.4.1 fifo.rs (vendored source, atomics instrumented)",
    "crossbeam Injector and SkipMap (real, one scheduling point per call)",
];
const Q_STUB: &[&str] = &["std atomics (scheduling point before each operation)", "rand (seeded)", "num_cpus (knob)"];
const COMMON_ASSUME: &[&str] = &[
    "sequentially consistent interleavings only: weak-memory reorderings and data races inside one uninstrumented operation are not modelled",
    "sampling, not enumeration: a clean batch is evidence, not proof",
];

const K_REAL: &[&str] = &[
    "core/src/coroutine/{mod,korosensei,state,listener,suspender,local}.rs",
    "core/src/common/macros.rs (catch!, impl_current_for!)",
    "corosensei context switching, psm (real)",
];
const K_STUB: &[&str] = &["wall clock (simulated)", "uuid (seeded)", "SIGVTALRM/SIGURG delivery (queued, delivered at scheduling points)"];

const POOL_RULE: &str = "fresh process per run; one CoroutinePool (min 0-2, max 1-4, keep-alive 0/1ms/1s): an owner thread alternates scheduling passes and sleeps and finally calls stop(30 s); 1-3 user threads submit 1-8/12 generated tasks (return / panic / suspend / delay / cpu work, priorities incl. extremes), wait for results with timeouts 0/1/50/5000 ms/untimed, and cancel tasks before submission, while queued, running or suspended; stall, spurious-wake-up and late-signal faults; non-trivial = a task suspended, a cancel, a blocked wait or a panic happened and threads interleaved; distinct = distinct (workload, schedule) fingerprints";
const POOL_REAL: &[&str] = &["core/src/co_pool/{mod,creator,state,task}.rs", "core/src/scheduler.rs", "coroutine kernel as C07", "ordered work-steal queue as C03", "CondvarBlocker (core/src/common/mod.rs)"];

const RT_RULE: &str = "fresh process per run; EventLoops with 1-4 event-loop threads (pool min 0-2, max 1..65536, keep-alive 0/1ms/1s); 1-4 user threads submit 1-12/40 generated tasks (return / panic / suspend / delay / cpu work / hooked usleep, priorities incl. extremes), join them (timeouts 0/1/50/5000 ms/untimed), cancel them (before submission, queued, running, suspended) and drop handles; 2 s quiet period, then EventLoops::stop(30 s); stall, spurious-wake-up and late-signal faults; local capacity 1..256 and CPU count knobs force overflow and stealing; non-trivial = a task suspended / was cancelled / a join blocked / a panic / a task ran on another loop than it was submitted to; distinct = distinct (workload, schedule) fingerprints";
const RT_REAL: &[&str] = &["core/src/net/{mod,event_loop,join}.rs", "core/src/net/selector (real epoll through mio's Registry)", "core/src/co_pool, core/src/scheduler.rs, coroutine kernel, queues", "core/src/syscall/unix/{usleep,...}.rs (hooked sleeps)"];
const RT_STUB: &[&str] = &["the waiting part of epoll_wait (simulated)", "std Mutex/Condvar/atomics/thread::spawn/sleep, clocks", "dashmap (simulated shard locks)", "SIGVTALRM delivery (queued, delivered at scheduling points)", "core_affinity (no-op)"];

const SOCKIO_RULE: &str = "fresh process per run, one event loop; one hooked read- or write-family call (recv read recvfrom readv recvmsg pread preadv / send write sendto writev sendmsg pwrite pwritev) on a real socketpair descriptor whose kernel side is a scripted function: response scripts of <=7 entries from {partial n, would-block, EINTR, end of stream, hard error} followed by {deliver everything, silence, EOF, error}; buffers of 0..64 bytes, iovec arrays of 1-5 elements incl. empty ones; blocking or O_NONBLOCK; SO_RCVTIMEO/SO_SNDTIMEO 0/5/50 ms; plain thread or coroutine task; non-trivial = a partial transfer, would-block, EINTR or more than one inner call happened";
const HOOK_REAL: &[&str] = &["core/src/syscall/unix/*.rs (facade, NIO and raw layers of the hooked calls)", "core/src/net/event_loop.rs (wait_event, wait_just, timed_wait_just)", "core/src/net/selector, real epoll on real socketpairs, fcntl/getsockopt/fstat (real)", "co_pool / scheduler / coroutine kernel underneath"];
const HOOK_STUB: &[&str] = &["the kernel behind fn_ptr (scripted function) where the scenario scripts responses", "the waiting part of epoll_wait", "std Mutex/Condvar/atomics/threads, clocks", "dashmap (simulated shard locks)"];

pub static PROPS: &[Prop] = &[
    Prop {
        id: "C07",
        level: "exploration",
        parts: &[Part { scenario: "co_life", quick_runs: 150_000, thorough_runs: 3_000_000, classes: &["listener-protocol", "listener-chain", "illegal-transition", "unreported-change", "refused-resume-side-effect", "resume-refused", "terminal-left", "terminal-result", "resume-result-mismatch", "refused-call-side-effect", "early-complete", "wrong-result", "crash", "panic-on-caller-thread"] }],
        quick_wall_s: 45,
        thorough_wall_s: 600,
        rule: "1-5 coroutines x generated bodies (suspend/delay/until/cancel/enter-syscall/syscall-state yields/leave/panic/return) x generated driver actions (resume incl. finished and not-yet-due ones, clock advances, syscall wake-ups, direct transition calls at random states), some with panicking listeners; recording listeners checked against the documented graph; non-trivial = a syscall-state yield, delay, cancel, refused resume or panic happened; distinct = distinct workload fingerprints",
        assumptions: COMMON_ASSUME,
        real: K_REAL,
        stub: K_STUB,
    },
    Prop {
        id: "C08",
        level: "exploration",
        parts: &[Part { scenario: "co_vals", quick_runs: 150_000, thorough_runs: 3_000_000, classes: &["value-in", "value-out", "completion-count", "panic-message", "unwound-into-caller", "terminal-left", "terminal-result", "resume-refused", "crash", "panic-on-caller-thread"] }],
        quick_wall_s: 40,
        thorough_wall_s: 600,
        rule: "typed coroutine<u64,u64,u64> with 0-20/50 suspend points, unique random payloads in both directions, ending in return or panic with &'static str or String payload, with and without panicking listeners; every run is non-trivial by construction; distinct = distinct workload fingerprints",
        assumptions: COMMON_ASSUME,
        real: K_REAL,
        stub: K_STUB,
    },
    Prop {
        id: "C25",
        level: "exploration",
        parts: &[Part { scenario: "co_local", quick_runs: 150_000, thorough_runs: 3_000_000, classes: &["local-map-semantics", "local-not-private", "not-released", "double-drop", "local-op-lost", "crash", "panic-on-caller-thread"] }],
        quick_wall_s: 40,
        thorough_wall_s: 600,
        rule: "histories of put/get/get_mut/remove over <=4 coroutines x 5 keys with drop-counting values, two thirds of the operations executed by the coroutine's own body (through current()) and one third through the handle, each coroutine dropped at a generated point: never started, suspended mid-body or finished; every run non-trivial by construction; distinct = distinct workload fingerprints",
        assumptions: COMMON_ASSUME,
        real: K_REAL,
        stub: K_STUB,
    },
    Prop {
        id: "C26",
        level: "exploration",
        parts: &[Part { scenario: "beans", quick_runs: 40_000, thorough_runs: 600_000, classes: &["singleton-split", "bean-panic", "deadlock", "crash", "panic-on-caller-thread"] }],
        quick_wall_s: 45,
        thorough_wall_s: 600,
        rule: "fresh process per run; 2-4 threads whose first action is get_or_default or init_bean+get_bean on one of two names (then more lookups on three names), optionally each also creating a Scheduler (global queue bean) with work then submitted through one scheduler and scheduled through the other; seeded schedules with a scheduling point before every atomic and map operation; non-trivial = threads actually interleaved; distinct = distinct (workload, schedule) fingerprints",
        assumptions: COMMON_ASSUME,
        real: &["core/src/common/beans.rs", "core/src/scheduler.rs (Scheduler::new, submit_co, try_timed_schedule)", "queues as C03"],
        stub: &["dashmap (shim: sharded map with simulated shard locks)", "std atomics"],
    },
    Prop {
        id: "C10",
        level: "exploration",
        parts: &[Part { scenario: "sched", quick_runs: 40_000, thorough_runs: 600_000, classes: &["resumed-early", "cancelled-resumed", "result-twice", "schedule-error", "due-not-resumed", "not-finished", "result-missing", "result-wrong", "deadlock", "crash", "panic-on-caller-thread"] }],
        quick_wall_s: 45,
        thorough_wall_s: 600,
        rule: "fresh process per run; 1-8 coroutine programs (suspend / delay 0..30ms / cpu work / return or panic, priorities incl. extremes) x 1-10/20 scheduling passes with generated budgets and clock advances x 0-3 cancels (ready, suspended, finished or unknown target; between passes or from a second thread at a generated instant inside a pass) x stall faults; non-trivial = a delay, a cancel or a panic happened; distinct = distinct (workload, schedule) fingerprints",
        assumptions: COMMON_ASSUME,
        real: &["core/src/scheduler.rs", "coroutine kernel as C07", "ordered work-steal queue as C03"],
        stub: K_STUB,
    },
    Prop {
        id: "C11",
        level: "exploration",
        parts: &[
            Part { scenario: "pool", quick_runs: 30_000, thorough_runs: 400_000, classes: &["pool-over-max", "workers-not-released", "stop-slow", "stop-failed", "owner-panic", "crash"] },
            Part { scenario: "rt", quick_runs: 10_000, thorough_runs: 200_000, classes: &["stop-slow", "stop-failed"] },
        ],
        quick_wall_s: 50,
        thorough_wall_s: 600,
        rule: POOL_RULE,
        assumptions: COMMON_ASSUME,
        real: POOL_REAL,
        stub: K_STUB,
    },
    Prop {
        id: "C12",
        level: "exploration",
        parts: &[
            Part { scenario: "pool", quick_runs: 30_000, thorough_runs: 400_000, classes: &["submit-after-stop", "submit-refused", "accepted-task-dropped", "waiter-stuck", "pool-state", "stop-failed", "deadlock", "call-stuck", "wait-timeout-untimed", "owner-panic", "user-panic"] },
            Part { scenario: "rt", quick_runs: 10_000, thorough_runs: 200_000, classes: &["submit-after-stop", "submit-refused", "accepted-task-dropped", "deadlock"] },
        ],
        quick_wall_s: 50,
        thorough_wall_s: 600,
        rule: POOL_RULE,
        assumptions: COMMON_ASSUME,
        real: POOL_REAL,
        stub: K_STUB,
    },
    Prop {
        id: "C13",
        level: "exploration",
        parts: &[
            Part { scenario: "pool", quick_runs: 30_000, thorough_runs: 400_000, classes: &["cancelled-task-ran", "task-ran-twice", "task-lost", "wrong-result", "waiter-stuck", "crash"] },
            Part { scenario: "rt", quick_runs: 10_000, thorough_runs: 200_000, classes: &["cancelled-task-ran", "task-ran-twice", "task-stranded", "crash"] },
        ],
        quick_wall_s: 50,
        thorough_wall_s: 600,
        rule: POOL_RULE,
        assumptions: COMMON_ASSUME,
        real: POOL_REAL,
        stub: K_STUB,
    },
    Prop {
        id: "C01",
        level: "exploration",
        parts: &[Part { scenario: "rt", quick_runs: 30_000, thorough_runs: 400_000, classes: &["task-stranded", "task-ran-twice", "task-lost", "accepted-task-dropped", "submit-refused", "call-stuck", "crash", "deadlock", "user-panic"] }],
        quick_wall_s: 55,
        thorough_wall_s: 900,
        rule: RT_RULE,
        assumptions: COMMON_ASSUME,
        real: RT_REAL,
        stub: RT_STUB,
    },
    Prop {
        id: "C02",
        level: "exploration",
        parts: &[
            Part { scenario: "rt", quick_runs: 20_000, thorough_runs: 300_000, classes: &["wrong-result", "wait-late", "wait-timeout-spurious", "wait-timeout-untimed", "wait-error", "waiter-stuck"] },
            Part { scenario: "pool", quick_runs: 15_000, thorough_runs: 200_000, classes: &["wrong-result", "wait-late", "wait-timeout-spurious", "wait-timeout-untimed", "wait-error", "waiter-stuck"] },
        ],
        quick_wall_s: 60,
        thorough_wall_s: 900,
        rule: RT_RULE,
        assumptions: COMMON_ASSUME,
        real: RT_REAL,
        stub: RT_STUB,
    },
    Prop {
        id: "C14",
        level: "exploration",
        parts: &[Part { scenario: "timed", quick_runs: 20_000, thorough_runs: 300_000, classes: &["returned-early", "returned-late", "wrong-return", "invalid-time-accepted", "hook-call-lost", "crash", "deadlock"] }],
        quick_wall_s: 50,
        thorough_wall_s: 600,
        rule: "fresh process per run, one event loop; one hooked timed wait per run: sleep/usleep/nanosleep/poll/select/pthread_cond_timedwait x timeouts {0, 1us, 999us, 1ms, 7ms, 10ms, 35ms, 1s, 3s} x {plain thread, coroutine task} x optional computing sibling task, and invalid time fields (negative, sub-second field out of range); inner poll/select are scripted 'nothing ready', the inner cond wait sleeps (simulated) to its abstime; elapsed simulated time must lie in [requested, requested + 25 ms + 2%]; non-trivial: every run; distinct = distinct (workload, schedule) fingerprints",
        assumptions: COMMON_ASSUME,
        real: HOOK_REAL,
        stub: HOOK_STUB,
    },
    Prop {
        id: "C15",
        level: "exploration",
        parts: &[Part { scenario: "sleepers", quick_runs: 15_000, thorough_runs: 200_000, classes: &["loop-stalled", "returned-early", "crash", "deadlock"] }],
        quick_wall_s: 50,
        thorough_wall_s: 600,
        rule: "fresh process per run, one event loop with room for every task: 1-8 tasks in a hooked usleep/nanosleep of 5..200 ms, 0-2 tasks in a hooked recv on a silent socket (real kernel), optionally a task that computes 1 ms and yields in a loop; every sleeper must finish within its own duration + 45 ms + N ms, the computing task must make at least (shortest sleep / 4 ms) steps meanwhile",
        assumptions: COMMON_ASSUME,
        real: HOOK_REAL,
        stub: HOOK_STUB,
    },
    Prop {
        id: "C16",
        level: "fault_enumeration",
        parts: &[Part { scenario: "sockio", quick_runs: 30_000, thorough_runs: 500_000, classes: &["bytes-wrong", "count-wrong", "hook-call-lost", "crash", "deadlock"] }],
        quick_wall_s: 50,
        thorough_wall_s: 600,
        rule: SOCKIO_RULE,
        assumptions: COMMON_ASSUME,
        real: HOOK_REAL,
        stub: HOOK_STUB,
    },
    Prop {
        id: "C17",
        level: "fault_enumeration",
        parts: &[Part { scenario: "sockio", quick_runs: 30_000, thorough_runs: 500_000, classes: &["iov-wrong-ranges"] }],
        quick_wall_s: 50,
        thorough_wall_s: 600,
        rule: SOCKIO_RULE,
        assumptions: COMMON_ASSUME,
        real: HOOK_REAL,
        stub: HOOK_STUB,
    },
    Prop {
        id: "C18",
        level: "fault_enumeration",
        parts: &[
            Part { scenario: "sockio", quick_runs: 20_000, thorough_runs: 350_000, classes: &["fd-mode-changed", "nonblocking-waited"] },
            Part { scenario: "connio", quick_runs: 10_000, thorough_runs: 150_000, classes: &["fd-mode-changed", "nonblocking-waited", "conn-wrong-result", "hook-call-lost", "crash"] },
        ],
        quick_wall_s: 50,
        thorough_wall_s: 600,
        rule: SOCKIO_RULE,
        assumptions: COMMON_ASSUME,
        real: HOOK_REAL,
        stub: HOOK_STUB,
    },
    Prop {
        id: "C19",
        level: "exploration",
        parts: &[
            Part { scenario: "sockopt", quick_runs: 20_000, thorough_runs: 300_000, classes: &["setsockopt-failed", "limit-stale", "close-failed", "hook-call-lost", "crash", "count-wrong", "deadlock"] },
            Part { scenario: "sockio", quick_runs: 10_000, thorough_runs: 200_000, classes: &["socket-timeout"] },
        ],
        quick_wall_s: 55,
        thorough_wall_s: 600,
        rule: "fresh process per run; histories of <=12/24 operations over 3 descriptor slots: socketpair, hooked setsockopt(SO_RCVTIMEO|SO_SNDTIMEO, 0/1/20/1000/2500 ms), hooked recv of ready data (fills the hook's cache), query of the limit the hook applies (compared with getsockopt on the live descriptor, 0 = unlimited), silent hooked recv timed against the limit, hooked close followed by a new socketpair that reuses the number; from a plain thread or a coroutine task; the child must never abort; non-trivial = an option was set twice / after I/O, a number was reused or a limit was waited out",
        assumptions: COMMON_ASSUME,
        real: HOOK_REAL,
        stub: HOOK_STUB,
    },
    Prop {
        id: "C20",
        level: "exploration",
        parts: &[Part { scenario: "ready", quick_runs: 15_000, thorough_runs: 200_000, classes: &["wake-late", "wrong-waiter-woken", "wrong-data", "crash", "deadlock"] }],
        quick_wall_s: 50,
        thorough_wall_s: 600,
        rule: "fresh process per run; 1-3 coroutine tasks on 1-2 event loops, each in a hooked recv (real kernel) on its own socketpair; a listener (attached through an appended read-only door) shows when the target is parked and until when; the peer writes one byte to one descriptor while the target's own wait timeout is still >= 1.5 ms away; the target must return that byte within 1 ms of simulated time and must have been woken by the event (Callback), nobody else may return; optionally a second write for another descriptor",
        assumptions: COMMON_ASSUME,
        real: &["core/src/net/selector/{mod,mio_adapter}.rs", "core/src/net/event_loop.rs", "core/src/scheduler.rs (try_resume, check_ready)", "mio Registry + real epoll_ctl/epoll_wait(0) on real socketpairs", "hooked recv (real kernel)"],
        stub: HOOK_STUB,
    },
    Prop {
        id: "C21",
        level: "exploration",
        parts: &[Part { scenario: "interest", quick_runs: 20_000, thorough_runs: 300_000, classes: &["interest-mismatch", "crash", "hook-call-lost", "deadlock"] }],
        quick_wall_s: 50,
        thorough_wall_s: 600,
        rule: "fresh process per run, one event loop; histories of <=15/30 operations over 3 descriptor slots: wait for read / write readiness (zero timeout), remove read / write / both, hooked shutdown(RD|WR|RDWR), hooked close + new socketpair (number reuse), peer writes that make events fire; from a plain thread or a coroutine task; after every operation the EPOLLIN/EPOLLOUT bits registered for every live descriptor (read from /proc/self/fdinfo of the loop's epoll instance) must equal the outstanding interests of a per-descriptor model",
        assumptions: COMMON_ASSUME,
        real: &["core/src/net/selector/{mod,mio_adapter}.rs", "core/src/net/mod.rs", "core/src/syscall/unix/{close,shutdown}.rs", "mio Registry + real epoll on real socketpairs"],
        stub: HOOK_STUB,
    },
    Prop {
        id: "C23",
        level: "exploration",
        parts: &[Part { scenario: "grow", quick_runs: 10_000, thorough_runs: 150_000, classes: &["grow-failed", "grow-bookkeeping", "crash"] }],
        quick_wall_s: 45,
        thorough_wall_s: 600,
        rule: "fresh process per run; recursion of depth 1..80/200 with frames of 1/4/16 KiB, every level through maybe_grow_with with one of three (red zone, segment size) pairs, inside a 64 KiB coroutine or on a plain thread with a 192 KiB stack; in half of the runs a panic is raised at a chosen level and caught by the caller, then the same recursion runs again, 1-3 rounds; inside every callback the stack pointer must be in a reported segment with the red zone available, segment lists before and after must be equal, values must come back, the process must survive",
        assumptions: COMMON_ASSUME,
        real: &["core/src/coroutine/korosensei.rs (maybe_grow_with)", "corosensei on_stack / DefaultStack, psm (real)"],
        stub: &["wall clock (unused)"],
    },
    Prop {
        id: "C24",
        level: "fault_enumeration",
        parts: &[Part { scenario: "faults", quick_runs: 10_000, thorough_runs: 150_000, classes: &["fault-resume-error", "healthy-harmed", "fault-message", "fault-not-contained", "crash"] }],
        quick_wall_s: 45,
        thorough_wall_s: 600,
        rule: "fresh process per run; fault kinds {write to address 1, null read, wild read, fault on a grown segment, fault while on a foreign stack, unbounded recursion} x depth 0..29 x 0-4 suspends before the fault x 1-3 healthy coroutines (1-5 steps each) interleaved on the same thread; real SIGSEGV/SIGBUS and the runtime's own handler",
        assumptions: COMMON_ASSUME,
        real: &["core/src/coroutine/korosensei.rs (trap handler, raw_resume)", "real SIGSEGV delivery, corosensei trap support"],
        stub: &["a wrapper around the handler that turns an unrecovered fault into a reported crash"],
    },
    Prop {
        id: "C28",
        level: "exploration",
        parts: &[Part { scenario: "timehelp", quick_runs: 20_000, thorough_runs: 300_000, classes: &["deadline-wrong", "resumed-early", "limit-wrong", "slices-wrong", "schedule-error", "crash", "panic-on-caller-thread"] }],
        quick_wall_s: 40,
        thorough_wall_s: 600,
        rule: "deadline clause under simulated clock jumps: get_timeout_time for durations {0, 1ns .. u64::MAX-5, u64::MAX, u64::MAX+1, Duration::MAX} at clocks {now, +1 day, u64::MAX-1s, u64::MAX-3ns} against saturating u128 arithmetic; a coroutine delayed by a huge duration under a clock jumped to one minute before the end of time must not run during the next simulated second; timeval -> limit conversion (zero = unlimited, saturating); the get_slices partition sweep is a pure function of its arguments and rides along as a by-product (not simulated coverage)",
        assumptions: COMMON_ASSUME,
        real: &["core/src/common/mod.rs (now, get_timeout_time, get_slices)", "core/src/syscall/unix/mod.rs (get_time_limit)", "core/src/scheduler.rs, coroutine kernel (delay under extreme clocks)"],
        stub: &["wall clock (simulated, jumped)"],
    },
    #[cfg(feature = "preemptive")]
    Prop {
        id: "C22",
        level: "exploration",
        parts: &[Part { scenario: "preempt", quick_runs: 10_000, thorough_runs: 150_000, classes: &["monitor-set-race", "signal-to-unknown-thread", "coroutine-lost", "preempted-in-syscall", "result-changed", "preempt-late", "not-preempted", "schedule-error", "scheduler-thread-panic", "crash", "deadlock"] }],
        quick_wall_s: 55,
        thorough_wall_s: 600,
        rule: "preemptive build, fresh process per run; 1-4 scheduling threads, each with a scheduler holding a computation of 5..200 ms without yields (or yielding every 4 ms), 0-3 short siblings, optionally a coroutine computing 15..60 ms in a system-call state; the real monitor thread and listener; SIGURG queued by the nix shim and delivered at the target's next scheduling point (optionally late); non-trivial = a preemption was observed",
        assumptions: COMMON_ASSUME,
        real: &["core/src/monitor.rs", "core/src/coroutine/korosensei.rs (listener installation)", "core/src/scheduler.rs"],
        stub: &["SIGURG delivery (queued, delivered at scheduling points)", "HashSet with a modification counter (detects iteration during mutation)"],
    },
    #[cfg(feature = "io_uring")]
    Prop {
        id: "C27",
        level: "exploration",
        parts: &[Part { scenario: "uring", quick_runs: 10_000, thorough_runs: 150_000, classes: &["uring-call-blocked", "uring-wrong-result", "crash", "deadlock"] }],
        quick_wall_s: 55,
        thorough_wall_s: 600,
        rule: "io_uring build against the simulated ring, fresh process per run; 1-12 concurrent hooked read/write/recv/send/pread/pwrite calls with pairwise different buffer lengths from coroutine tasks (1-2 event loops) and plain threads; the simulated kernel answers each submission after 0.1..29 ms with a count or a negative errno derived from the submission's length, so every completion identifies its own call",
        assumptions: COMMON_ASSUME,
        real: &["core/src/net/operator/linux/mod.rs (Operator: push_sq, select, backlog)", "core/src/net/event_loop.rs (token, adapt_io_uring, syscall_wait_table)", "core/src/syscall/unix/mod.rs (impl_io_uring* layers)"],
        stub: &["io-uring rings and probe (simulated in process; the real crate's opcode builders produce the entries)"],
    },
    Prop {
        id: "C09",
        level: "exploration",
        parts: &[Part { scenario: "co_life", quick_runs: 150_000, thorough_runs: 3_000_000, classes: &["request-leak"] }],
        quick_wall_s: 45,
        thorough_wall_s: 600,
        rule: "same runs as C07; each body records what it asked for in its latest yield (plain, delay d, until t, cancel, or a yield made in a syscall state) and the resume's reported wake-up time / cancellation must be exactly that; non-trivial = a syscall-state yield, delay or cancel happened in the run",
        assumptions: COMMON_ASSUME,
        real: K_REAL,
        stub: K_STUB,
    },
    Prop {
        id: "C03",
        level: "exploration",
        parts: &[
            Part { scenario: "q_conc", quick_runs: 60_000, thorough_runs: 1_500_000, classes: &["pop-unknown", "pop-duplicate", "item-lost", "shared-len-mismatch", "crash", "panic-in-queue-op", "panic-on-caller-thread"] },
            Part { scenario: "q_hist", quick_runs: 30_000, thorough_runs: 500_000, classes: &["pop-duplicate", "item-lost", "pop-wrong-item", "mirror-mismatch", "crash", "panic-on-caller-thread"] },
        ],
        quick_wall_s: 50,
        thorough_wall_s: 600,
        rule: "seeded plans (queue kind, 1-4 local queues, capacity 1-64, 2-3 threads x <=40/80 ops, priorities incl. i64 extremes) x seeded schedules (sticky-random/PCT/round-robin); a run is non-trivial if a steal, an overflow spill, a shared-queue pop or a context switch inside another thread's operation happened; distinct = distinct (workload fingerprint, schedule fingerprint) pairs",
        assumptions: COMMON_ASSUME,
        real: Q_REAL,
        stub: Q_STUB,
    },
    Prop {
        id: "C04",
        level: "exploration",
        parts: &[
            Part { scenario: "q_hist", quick_runs: 50_000, thorough_runs: 1_000_000, classes: &["call-steps", "call-stuck"] },
            Part { scenario: "q_conc", quick_runs: 40_000, thorough_runs: 1_000_000, classes: &["call-steps", "call-stuck", "deadlock"] },
        ],
        quick_wall_s: 50,
        thorough_wall_s: 600,
        rule: "every push/pop call is bracketed and charged the scheduling points of its own thread; bound = 5000 + 300 x items in the plan (a legitimate call needs a few hundred); histories biased to refill-after-steal; non-trivial = a steal or spill happened; distinct as C03",
        assumptions: COMMON_ASSUME,
        real: Q_REAL,
        stub: Q_STUB,
    },
    Prop {
        id: "C05",
        level: "exploration",
        parts: &[
            Part { scenario: "q_hist", quick_runs: 60_000, thorough_runs: 2_000_000, classes: &["priority-order", "pop-wrong-item", "mirror-mismatch"] },
            Part { scenario: "pool_prio", quick_runs: 15_000, thorough_runs: 300_000, classes: &["priority-order", "task-lost", "accepted-task-dropped"] },
        ],
        quick_wall_s: 60,
        thorough_wall_s: 600,
        rule: "single-thread histories over one shared and 1-4 local queues; the shims log every container-level insert/remove, a FIFO mirror per container gives the resident set of the queue that supplied each popped item; non-trivial = steal/spill/shared pop happened; distinct = distinct workload fingerprints",
        assumptions: COMMON_ASSUME,
        real: Q_REAL,
        stub: Q_STUB,
    },
    Prop {
        id: "C06",
        level: "exploration",
        parts: &[Part { scenario: "q_hist", quick_runs: 80_000, thorough_runs: 2_000_000, classes: &["shared-starved", "false-empty"] }],
        quick_wall_s: 45,
        thorough_wall_s: 600,
        rule: "as C05; 'starve' plans keep one local queue non-empty for >=70 pops while the shared queue holds work, 'idle' plans pop from empty queues while siblings/shared hold work; non-trivial = a run of >=30 local pops with shared work waiting, or an empty-handed pop, or a steal happened",
        assumptions: COMMON_ASSUME,
        real: Q_REAL,
        stub: Q_STUB,
    },
];

pub fn find(id: &str) -> Option<&'static Prop> {
    PROPS.iter().find(|p| p.id == id)
}
