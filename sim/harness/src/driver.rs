//! Batch driver: seeded search over plans and schedules, aggregation, evidence, known findings,
//! minimisation and replay files.
use crate::json::J;
use crate::obj;
use crate::proc::{self, RunSpec};
use crate::props::{Part, Prop};
use crate::scen::{self, Scenario, Tier};
use std::collections::{BTreeMap, BTreeSet};
use std::time::Instant;
use vstd::sim::{splitmix64, Rng};

pub const VERIF: &str = "/verif";

fn seed_for(base: u64, part: usize, i: u64) -> u64 {
    let mut x = base ^ (part as u64).wrapping_mul(0x9E37_79B9_7F4A_7C15) ^ i.wrapping_mul(0xD6E8_FEB8_6659_FD93);
    splitmix64(&mut x)
}

pub fn plan_for(scn: &Scenario, seed: u64, tier: Tier) -> J {
    let mut g = Rng::stream(seed, 7);
    (scn.gen)(&mut g, tier)
}

#[derive(Default)]
struct Agg {
    runs: u64,
    ok: u64,
    nontrivial: BTreeSet<(u64, u64)>,
    points: u64,
    switches: u64,
    sim_ns: u128,
    counters: BTreeMap<String, u64>,
    probes: BTreeMap<String, u64>,
    strategies: BTreeMap<String, u64>,
    violations: Vec<J>,
    other_prop: BTreeMap<String, u64>,
    harness_errors: Vec<J>,
    rerun_checked: u64,
    rerun_mismatch: Vec<J>,
    samples: Vec<J>,
    interleavings: BTreeSet<u64>,
}

fn is_fault_counter(k: &str) -> bool {
    k.starts_with("fault.") || k.starts_with("signal.") || k.starts_with("cause.") || k.starts_with("kern.")
}

/// One worker: runs indices w, w+jobs, ... of one part until the count or the deadline is reached.
pub fn worker_main(out_fd: i32, scn: &'static Scenario, part_idx: usize, base: u64, tier: Tier, w: u64, jobs: u64, runs: u64, deadline: Instant) {
    let mut i = w;
    let mut n = 0u64;
    let chunk = u64::from(scn.chunk.max(1));
    while i < runs && Instant::now() < deadline {
        let mut specs = Vec::new();
        let mut plans = Vec::new();
        while (specs.len() as u64) < chunk && i < runs {
            let seed = seed_for(base, part_idx, i);
            let plan = plan_for(scn, seed, tier);
            specs.push((
                i,
                RunSpec {
                    plan: plan.clone(),
                    sched_seed: seed,
                    record: false,
                    replay: None,
                },
            ));
            plans.push((i, seed, plan));
            i += jobs;
        }
        let results = proc::run_chunk(scn, &specs, scn.wall_ms, true);
        for (idx, mut r) in results {
            let Some((_, seed, plan)) = plans.iter().find(|p| p.0 == idx) else {
                continue;
            };
            r.set("i", idx.into());
            r.set("seed", (*seed).into());
            r.set("wfp", format!("{:016x}", scen::workload_fp(plan)).into());
            r.set("strategy", plan.get("sim").map_or("", |s| s.gs("strategy")).into());
            // determinism spot check: every 64th run of this worker is executed again, alone, in a
            // fresh child (so it also checks independence from the position inside a chunk)
            if n % 64 == 0 {
                let spec = &specs.iter().find(|s| s.0 == idx).expect("spec").1;
                let r2 = proc::run_one(scn, spec, scn.wall_ms, true);
                let h1 = r.get("stats").map_or("", |s| s.gs("log_hash")).to_string();
                let h2 = r2.get("stats").map_or("", |s| s.gs("log_hash")).to_string();
                r.set("rerun_same", (h1 == h2 && r.gs("outcome") == r2.gs("outcome")).into());
            }
            if idx < 3 {
                r.set("plan", plan.clone());
            }
            proc::write_line(out_fd, &r);
            n += 1;
        }
    }
}

fn absorb(agg: &mut Agg, scn: &Scenario, part: &Part, r: J) {
    agg.runs += 1;
    let outcome = r.gs("outcome").to_string();
    let stats = r.get("stats").cloned().unwrap_or(J::Obj(vec![]));
    agg.points += stats.gu("points");
    agg.switches += stats.gu("switches");
    agg.sim_ns += u128::from(stats.gu("sim_ns"));
    let mut fault_fired = false;
    if let Some(J::Obj(cs)) = stats.get("counters") {
        for (k, v) in cs {
            *agg.counters.entry(k.clone()).or_insert(0) += v.u();
            if is_fault_counter(k) && v.u() > 0 {
                fault_fired = true;
            }
        }
    }
    let mut key_hit = scn.key_probes.is_empty();
    for p in r.ga("probes") {
        *agg.probes.entry(p.s().to_string()).or_insert(0) += 1;
        if scn.key_probes.contains(&p.s()) {
            key_hit = true;
        }
    }
    *agg.strategies.entry(r.gs("strategy").to_string()).or_insert(0) += 1;
    let wfp = u64::from_str_radix(r.gs("wfp"), 16).unwrap_or(0);
    let sfp = u64::from_str_radix(stats.gs("sched_hash"), 16).unwrap_or(0);
    if stats.gu("switches") > 0 {
        _ = agg.interleavings.insert(sfp ^ wfp.rotate_left(17));
    }
    if let Some(same) = r.get("rerun_same") {
        agg.rerun_checked += 1;
        if !same.b() {
            agg.rerun_mismatch.push(obj! {"scenario" => scn.name, "seed" => r.gu("seed")});
        }
    }
    match outcome.as_str() {
        "ok" => {
            agg.ok += 1;
            if key_hit && (stats.gu("switches") > 0 || fault_fired || stats.gu("threads") <= 1) {
                _ = agg.nontrivial.insert((wfp, sfp));
            }
            if agg.samples.len() < 3 {
                if let Some(p) = r.get("plan") {
                    agg.samples.push(obj! {"scenario" => scn.name, "seed" => r.gu("seed"), "outcome" => "ok",
                        "plan" => p.clone(), "points" => stats.gu("points"), "switches" => stats.gu("switches"), "notes" => r.get("notes").cloned().unwrap_or(J::Null)});
                }
            }
        }
        "violation" => {
            let mut r = r.clone();
            if !part.classes.contains(&"*") && !part.classes.contains(&r.gs("class")) {
                let wanted = r.ga("also").iter().map(|a| a.gs("class").to_string()).find(|c| part.classes.contains(&c.as_str()));
                if let Some(c) = wanted {
                    focus(&mut r, &c);
                }
            }
            let r = &r;
            let class = r.gs("class").to_string();
            if part.classes.contains(&"*") || part.classes.contains(&class.as_str()) {
                agg.violations.push(obj! {"scenario" => scn.name, "seed" => r.gu("seed"), "class" => class, "msg" => r.gs("msg"),
                    "counters" => stats.get("counters").cloned().unwrap_or(J::Null)});
            } else {
                *agg.other_prop.entry(format!("{}:{}", scn.name, class)).or_insert(0) += 1;
            }
        }
        _ => {
            if agg.harness_errors.len() < 20 {
                agg.harness_errors.push(obj! {"scenario" => scn.name, "seed" => r.gu("seed"), "class" => r.gs("class"), "msg" => r.gs("msg")});
            } else {
                agg.harness_errors.push(J::Null);
            }
        }
    }
}

// ------------------------------------------------------------------------------------------------
// known findings

pub struct Known {
    pub findings: Vec<J>,
}

pub fn load_known() -> Known {
    let p = format!("{VERIF}/known_findings.json");
    let Ok(s) = std::fs::read_to_string(&p) else {
        return Known { findings: vec![] };
    };
    match J::parse(&s) {
        Ok(j) => Known {
            findings: j.ga("findings").to_vec(),
        },
        Err(e) => {
            eprintln!("HARNESS-ERROR cannot parse {p}: {e}");
            std::process::exit(2);
        }
    }
}

/// A violation matches a listed finding only if property, scenario, class, the message pattern and
/// every listed root-cause counter agree.
fn match_known<'a>(k: &'a Known, prop: &str, v: &J) -> Option<&'a J> {
    k.findings.iter().find(|f| {
        if f.gs("property") != prop {
            return false;
        }
        if !f.gs("scenario").is_empty() && f.gs("scenario") != v.gs("scenario") {
            return false;
        }
        if f.gs("class") != v.gs("class") {
            return false;
        }
        for c in f.ga("msg_contains") {
            if !v.gs("msg").contains(c.s()) {
                return false;
            }
        }
        for c in f.ga("causes") {
            if v.get("counters").map_or(0, |cs| cs.gu(c.s())) == 0 {
                return false;
            }
        }
        for c in f.ga("not_causes") {
            if v.get("counters").map_or(0, |cs| cs.gu(c.s())) != 0 {
                return false;
            }
        }
        true
    })
}

// ------------------------------------------------------------------------------------------------
// minimisation and replay files

/// A run may report several failed oracles (`also`): make `class` the run's class if it is among them.
pub fn focus(r: &mut J, class: &str) {
    if r.gs("outcome") != "violation" || r.gs("class") == class {
        return;
    }
    let hit = r.ga("also").iter().find(|a| a.gs("class") == class).cloned();
    if let Some(a) = hit {
        let (pc, pm) = (r.gs("class").to_string(), r.gs("msg").to_string());
        let mut rest: Vec<J> = r.ga("also").iter().filter(|x| x.gs("class") != class).cloned().collect();
        rest.insert(0, obj! {"class" => pc, "msg" => pm});
        r.set("class", a.gs("class").into());
        r.set("msg", a.gs("msg").into());
        r.set("also", J::Arr(rest));
    }
}

fn same_failure(r: &J, class: &str) -> bool {
    let mut r = r.clone();
    focus(&mut r, class);
    r.gs("outcome") == "violation" && r.gs("class") == class
}

/// Same violation class and, like the original, not explained by a listed known finding (a shrunk
/// plan must not drift into a different, already known failure of the same class).
fn same_new_failure(r: &J, class: &str, prop: &str, scn: &Scenario, known: &Known) -> bool {
    if !same_failure(r, class) {
        return false;
    }
    let v = obj! {"scenario" => scn.name, "class" => class, "msg" => r.gs("msg"),
        "counters" => r.get("stats").and_then(|s| s.get("counters")).cloned().unwrap_or(J::Null)};
    match_known(known, prop, &v).is_none()
}

/// Delta-debug the plan: a candidate is kept only if the same violation class recurs (tried under
/// the original schedule seed and a few neighbours, since removing operations shifts the schedule).
pub fn minimise(scn: &Scenario, plan: &J, sched_seed: u64, class: &str, budget_s: u64, prop: &str, known: &Known) -> (J, u64, u64) {
    let start = Instant::now();
    let mut best = plan.clone();
    let mut best_seed = sched_seed;
    let mut tried = 0u64;
    let mut progress = true;
    while progress && start.elapsed().as_secs() < budget_s {
        progress = false;
        for cand in scen::shrink_candidates(&best) {
            if start.elapsed().as_secs() >= budget_s {
                break;
            }
            let mut hit = None;
            for k in 0..4u64 {
                let ss = if k == 0 { best_seed } else { best_seed.wrapping_add(k.wrapping_mul(0x9E37_79B9)) };
                tried += 1;
                let r = proc::run_one(
                    scn,
                    &RunSpec {
                        plan: cand.clone(),
                        sched_seed: ss,
                        record: false,
                        replay: None,
                    },
                    scn.wall_ms,
                    true,
                );
                if same_new_failure(&r, class, prop, scn, known) {
                    hit = Some(ss);
                    break;
                }
            }
            if let Some(ss) = hit {
                best = cand;
                best_seed = ss;
                progress = true;
                break;
            }
        }
    }
    // schedule simplification: look for a failing schedule with fewer context switches
    let mut best_sw = u64::MAX;
    let mut final_plan = best.clone();
    let mut final_seed = best_seed;
    let base_p = best.get("sim").map_or(50_000, |s| s.get("p_ppm").map_or(50_000, J::u));
    // a plan with upper bounds on elapsed time keeps its (fair) strategy: a stickier schedule would
    // turn the failure into one the simulator causes by starving a runnable thread
    let timing = best.get("sim").is_some_and(|s| s.get("timing").is_some_and(J::b));
    let sticky = !timing && best.get("sim").map_or("", |s| s.gs("strategy")) == "sticky";
    let mut cands: Vec<(J, u64)> = vec![(best.clone(), best_seed)];
    if sticky {
        for div in [2u64, 4, 10, 30] {
            let mut p = best.clone();
            if let Some(s) = p.get_mut("sim") {
                s.set("p_ppm", (base_p / div).into());
            }
            for k in 0..6u64 {
                cands.push((p.clone(), best_seed.wrapping_add(k * 7919)));
            }
        }
    }
    for (p, ss) in cands {
        if start.elapsed().as_secs() >= budget_s + 20 {
            break;
        }
        tried += 1;
        let r = proc::run_one(
            scn,
            &RunSpec {
                plan: p.clone(),
                sched_seed: ss,
                record: false,
                replay: None,
            },
            scn.wall_ms,
            true,
        );
        if same_new_failure(&r, class, prop, scn, known) {
            let sw = r.get("stats").map_or(u64::MAX, |s| s.gu("switches"));
            if sw < best_sw {
                best_sw = sw;
                final_plan = p;
                final_seed = ss;
            }
        }
    }
    (final_plan, final_seed, tried)
}

fn trace_of(r: &J) -> Vec<(u64, u32)> {
    r.get("stats")
        .map_or(&[][..], |s| s.ga("trace"))
        .iter()
        .map(|e| (e.arr()[0].u(), e.arr()[1].u() as u32))
        .collect()
}

/// Re-run the failing case in recording mode and write the replay file. Returns its path.
pub fn write_replay(prop: &str, scn: &Scenario, plan: &J, sched_seed: u64, orig_seed: u64, class: &str, shrink_runs: u64) -> Option<String> {
    let r = proc::run_one(
        scn,
        &RunSpec {
            plan: plan.clone(),
            sched_seed,
            record: true,
            replay: None,
        },
        scn.wall_ms,
        true,
    );
    if !same_failure(&r, class) {
        return None;
    }
    let mut r = r;
    focus(&mut r, class);
    let stats = r.get("stats").cloned().unwrap_or(J::Null);
    let dir = format!("{VERIF}/replays/{prop}");
    _ = std::fs::create_dir_all(&dir);
    let path = format!("{dir}/{}-{:016x}-{}.json", scn.name, orig_seed, class);
    let file = obj! {
        "property" => prop,
        "scenario" => scn.name,
        "seed" => orig_seed,
        "sched_seed" => sched_seed,
        "violation" => obj!{"class" => class, "msg" => r.gs("msg")},
        "log_hash" => stats.gs("log_hash"),
        "points" => stats.gu("points"),
        "switches" => stats.gu("switches"),
        "sim_ns" => stats.gu("sim_ns"),
        "minimisation_runs" => shrink_runs,
        "plan" => plan.clone(),
        "thread_names" => stats.get("thread_names").cloned().unwrap_or(J::Null),
        "schedule" => stats.get("trace").cloned().unwrap_or(J::Null),
        "counters" => stats.get("counters").cloned().unwrap_or(J::Null),
        "notes" => r.get("notes").cloned().unwrap_or(J::Null),
        "log_tail" => stats.get("log_tail").cloned().unwrap_or(J::Null),
    };
    std::fs::write(&path, file.pretty()).ok()?;
    Some(path)
}

/// `simrun replay FILE`: strict replay of the recorded schedule in a fresh process.
pub fn replay(path: &str) -> i32 {
    let Ok(s) = std::fs::read_to_string(path) else {
        eprintln!("HARNESS-ERROR cannot read {path}");
        return 2;
    };
    let f = match J::parse(&s) {
        Ok(j) => j,
        Err(e) => {
            eprintln!("HARNESS-ERROR cannot parse {path}: {e}");
            return 2;
        }
    };
    let Some(scn) = scen::find(f.gs("scenario")) else {
        eprintln!("HARNESS-ERROR unknown scenario {}", f.gs("scenario"));
        return 2;
    };
    let plan = f.get("plan").cloned().unwrap_or(J::Null);
    let trace: Vec<(u64, u32)> = f.ga("schedule").iter().map(|e| (e.arr()[0].u(), e.arr()[1].u() as u32)).collect();
    let class = f.get("violation").map_or("", |v| v.gs("class")).to_string();
    let spec = RunSpec {
        plan: plan.clone(),
        sched_seed: f.gu("sched_seed"),
        record: true,
        replay: Some(trace),
    };
    let mut r = proc::run_one(scn, &spec, scn.wall_ms, true);
    let mut mode = "strict schedule";
    if r.gs("class") == "replay-diverged" {
        // the code under test changed since the recording: fall back to the seeded schedule
        mode = "seeded schedule (recorded schedule no longer applies)";
        eprintln!("note: strict replay diverged: {}", r.gs("msg"));
        r = proc::run_one(
            scn,
            &RunSpec {
                replay: None,
                ..spec.clone()
            },
            scn.wall_ms,
            true,
        );
    }
    let h = r.get("stats").map_or("", |s| s.gs("log_hash")).to_string();
    focus(&mut r, &class);
    println!("replay of {path} [{mode}]: outcome={} class={} log_hash={h} (recorded {})", r.gs("outcome"), r.gs("class"), f.gs("log_hash"));
    println!("  {}", r.gs("msg"));
    if same_failure(&r, &class) {
        println!("VIOLATION property={} replay={path}", f.gs("property"));
        if h == f.gs("log_hash") {
            println!("REPRODUCED exactly (same violation, same event-log hash)");
        } else {
            println!("REPRODUCED (same violation class; event log differs from the recording)");
        }
        1
    } else if r.gs("outcome") == "harness-error" {
        eprintln!("HARNESS-ERROR during replay: {} {}", r.gs("class"), r.gs("msg"));
        2
    } else {
        println!("NOT-REPRODUCED: the run no longer violates the property");
        0
    }
}

// ------------------------------------------------------------------------------------------------
// the batch

pub fn batch(prop: &'static Prop, tier: Tier, base_seed: u64, jobs: u64) -> i32 {
    let t0 = Instant::now();
    let known = load_known();
    let total_runs: u64 = prop.parts.iter().map(|p| prop.runs(p, tier)).sum();
    let wall = prop.wall_s(tier);
    let mut aggs: Vec<Agg> = Vec::new();
    for (pi, part) in prop.parts.iter().enumerate() {
        let Some(scn) = scen::find(part.scenario) else {
            eprintln!("HARNESS-ERROR unknown scenario {}", part.scenario);
            return 2;
        };
        let runs = prop.runs(part, tier);
        let share = (wall as f64 * runs as f64 / total_runs as f64).max(3.0);
        let deadline = Instant::now() + std::time::Duration::from_secs_f64(share);
        let mut workers = Vec::new();
        let _ = deadline;
        for w in 0..jobs {
            workers.push(proc::spawn_worker(&[
                scn.name.to_string(),
                pi.to_string(),
                base_seed.to_string(),
                (if tier == Tier::Quick { "quick" } else { "thorough" }).to_string(),
                w.to_string(),
                jobs.to_string(),
                runs.to_string(),
                ((share * 1000.0) as u64).to_string(),
            ]));
        }
        let mut agg = Agg::default();
        proc::drain_workers(workers, |r| absorb(&mut agg, scn, part, r));
        aggs.push(agg);
    }
    // ---- triage of violations
    let mut new_violations: Vec<(usize, J)> = Vec::new();
    let mut known_hits: BTreeMap<String, (u64, String)> = BTreeMap::new();
    let mut n_viol = 0u64;
    for (pi, a) in aggs.iter().enumerate() {
        for v in &a.violations {
            n_viol += 1;
            if let Some(f) = match_known(&known, prop.id, v) {
                let e = known_hits.entry(f.gs("id").to_string()).or_insert((0, f.gs("what").to_string()));
                e.0 += 1;
            } else {
                new_violations.push((pi, v.clone()));
            }
        }
    }
    let mut replay_paths: Vec<String> = Vec::new();
    let mut reported: BTreeSet<(String, String)> = BTreeSet::new();
    let mut exit = 0;
    for (pi, v) in &new_violations {
        let scn = scen::find(prop.parts[*pi].scenario).expect("scenario");
        let key = (scn.name.to_string(), v.gs("class").to_string());
        if reported.contains(&key) || reported.len() >= 4 {
            continue;
        }
        let seed = v.gu("seed");
        let plan = plan_for(scn, seed, tier);
        let budget = if tier == Tier::Quick { 25 } else { 90 };
        let (mp, ms, tried) = minimise(scn, &plan, seed, v.gs("class"), budget, prop.id, &known);
        let path = write_replay(prop.id, scn, &mp, ms, seed, v.gs("class"), tried)
            .or_else(|| write_replay(prop.id, scn, &plan, seed, seed, v.gs("class"), 0));
        match path {
            Some(p) => {
                println!("VIOLATION property={} replay={}", prop.id, p);
                println!("  scenario={} seed={} class={}: {}", scn.name, seed, v.gs("class"), v.gs("msg"));
                replay_paths.push(p);
                _ = reported.insert(key);
                exit = 1;
            }
            None => {
                // does not reproduce in a fresh child: nondeterminism in the harness, not a finding
                eprintln!("HARNESS-ERROR violation of {} (scenario {} seed {seed} class {}) did not reproduce on re-execution", prop.id, scn.name, v.gs("class"));
                if exit == 0 {
                    exit = 2;
                }
            }
        }
    }
    for (id, (n, what)) in &known_hits {
        println!("KNOWN-FINDING: property={} {} [{id}; {n} run(s) in this batch]", prop.id, what);
    }
    // ---- harness health
    let mut herr = 0u64;
    let mut mismatches = 0usize;
    for a in &aggs {
        herr += a.harness_errors.len() as u64;
        mismatches += a.rerun_mismatch.len();
    }
    let runs: u64 = aggs.iter().map(|a| a.runs).sum();
    if mismatches > 0 && exit == 0 {
        eprintln!("HARNESS-ERROR {mismatches} run(s) produced a different event log when executed twice");
        exit = 2;
    }
    if herr > 0 {
        for a in &aggs {
            for e in a.harness_errors.iter().take(3) {
                eprintln!("harness-error sample: {}", e.to_string());
            }
        }
        // budget exhaustion outside any monitored call in a small share of runs is tolerated and reported
        if exit == 0 && herr * 50 > runs.max(1) {
            eprintln!("HARNESS-ERROR {herr} of {runs} runs ended in a harness error");
            exit = 2;
        }
    }
    if runs == 0 {
        eprintln!("HARNESS-ERROR no run completed");
        exit = 2;
    }
    // ---- evidence
    let wall_s = t0.elapsed().as_secs_f64();
    let ev = evidence(prop, tier, base_seed, &aggs, wall_s, n_viol, &known_hits, &replay_paths, herr);
    let path = format!("{VERIF}/evidence/{}.json", prop.id);
    _ = std::fs::create_dir_all(format!("{VERIF}/evidence"));
    if std::fs::write(&path, ev.pretty()).is_err() {
        eprintln!("HARNESS-ERROR cannot write {path}");
        return 2;
    }
    let dn: usize = aggs.iter().map(|a| a.nontrivial.len()).sum();
    println!(
        "{} {:?}: {} runs ({} ok, {} violation run(s), {} harness error(s)), {} distinct non-trivial, {:.0} runs/s, {:.1}s",
        prop.id,
        tier,
        runs,
        aggs.iter().map(|a| a.ok).sum::<u64>(),
        n_viol,
        herr,
        dn,
        runs as f64 / wall_s.max(0.001),
        wall_s
    );
    exit
}

#[allow(clippy::too_many_arguments)]
fn evidence(
    prop: &Prop,
    tier: Tier,
    seed: u64,
    aggs: &[Agg],
    wall_s: f64,
    n_viol: u64,
    known_hits: &BTreeMap<String, (u64, String)>,
    replays: &[String],
    herr: u64,
) -> J {
    let runs: u64 = aggs.iter().map(|a| a.runs).sum();
    let dn: usize = aggs.iter().map(|a| a.nontrivial.len()).sum();
    let mut faults = BTreeMap::new();
    let mut probes = BTreeMap::new();
    let mut strategies = BTreeMap::new();
    let mut other = BTreeMap::new();
    let mut samples = Vec::new();
    let mut per_scn = Vec::new();
    let mut sim_ns: u128 = 0;
    let mut points = 0u64;
    let mut switches = 0u64;
    let mut rer = 0u64;
    let mut inter = 0usize;
    for (a, p) in aggs.iter().zip(prop.parts.iter()) {
        for (k, v) in &a.counters {
            *faults.entry(k.clone()).or_insert(0u64) += v;
        }
        for (k, v) in &a.probes {
            *probes.entry(k.clone()).or_insert(0u64) += v;
        }
        for (k, v) in &a.strategies {
            *strategies.entry(k.clone()).or_insert(0u64) += v;
        }
        for (k, v) in &a.other_prop {
            *other.entry(k.clone()).or_insert(0u64) += v;
        }
        samples.extend(a.samples.iter().take(2).cloned());
        sim_ns += a.sim_ns;
        points += a.points;
        switches += a.switches;
        rer += a.rerun_checked;
        inter += a.interleavings.len();
        per_scn.push(obj! {"scenario" => p.scenario, "runs" => a.runs, "ok" => a.ok, "distinct_nontrivial" => a.nontrivial.len(),
            "violations" => a.violations.len(), "harness_errors" => a.harness_errors.len()});
    }
    if samples.is_empty() {
        samples.push(obj! {"note" => "no completed run to sample"});
    }
    let to_obj = |m: &BTreeMap<String, u64>| J::Obj(m.iter().map(|(k, v)| (k.clone(), J::from(*v))).collect());
    let fault_only: BTreeMap<String, u64> = faults.iter().filter(|(k, _)| is_fault_counter(k)).map(|(k, v)| (k.clone(), *v)).collect();
    let cov = obj! {
        "evaluations" => runs,
        "distinct_nontrivial" => dn,
        "rule" => prop.rule,
        "samples" => J::Arr(samples),
        "technique" => "deterministic simulation with fault injection: real code on real threads run one at a time under a seeded scheduler, simulated clock, scripted kernel; seeded search over plans x schedules x faults",
        "per_scenario" => J::Arr(per_scn),
        "simulated_runs_per_hour" => (runs as f64 * 3600.0 / wall_s.max(0.001)).round(),
        "seeds_per_hour" => (runs as f64 * 3600.0 / wall_s.max(0.001)).round(),
        "simulated_seconds_covered" => (sim_ns as f64 / 1e9),
        "scheduling_points" => points,
        "context_switches" => switches,
        "distinct_interleavings" => inter,
        "interleaving_measure" => "distinct hashes of the (thread, operation label) sequence at context switches, combined with the workload fingerprint",
        "faults_fired" => to_obj(&fault_only),
        "counters" => to_obj(&faults),
        "probes_hit_runs" => to_obj(&probes),
        "strategy_mix" => to_obj(&strategies),
        "determinism_reruns_compared" => rer,
        "runs_cut_short_by_other_property_violation" => to_obj(&other),
        "harness_errors" => herr,
        "known_findings_matched" => J::Obj(known_hits.iter().map(|(k, (n, _))| (k.clone(), J::from(*n))).collect()),
        "replay_files" => J::Arr(replays.iter().map(|s| J::from(s.as_str())).collect()),
        "real_components" => J::Arr(prop.real.iter().map(|s| J::from(*s)).collect()),
        "stub_components" => J::Arr(prop.stub.iter().map(|s| J::from(*s)).collect()),
    };
    obj! {
        "property_id" => prop.id,
        "tier" => if tier == Tier::Quick { "quick" } else { "thorough" },
        "seed" => seed,
        "level" => prop.level,
        "coverage" => cov,
        "assumptions" => J::Arr(prop.assumptions.iter().map(|s| J::from(*s)).collect()),
        "wall_s" => wall_s,
        "violations" => n_viol,
    }
}
