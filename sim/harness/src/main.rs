//! simrun: deterministic-simulation harness for open-coroutine.
//!
//!   simrun batch <PROP> [--tier quick|thorough] [--seed N] [--jobs N]
//!   simrun one <SCENARIO> --seed N [--tier T] [--record]      (one run, result JSON on stdout)
//!   simrun replay <FILE>
//!   simrun list
mod child;
mod driver;
mod json;
mod proc;
mod props;
mod scen;

use scen::Tier;

/// Same address-space layout in every process (pointers feed hashes in the code under test).
fn ensure_no_aslr() {
    const ADDR_NO_RANDOMIZE: libc::c_ulong = 0x0040000;
    if std::env::var_os("VSIM_NOASLR").is_some() {
        return;
    }
    unsafe {
        let cur = libc::personality(0xffff_ffff);
        if cur == -1 || libc::personality(cur as libc::c_ulong | ADDR_NO_RANDOMIZE) == -1 {
            eprintln!("warning: cannot disable ASLR; replays across processes may differ");
            return;
        }
    }
    std::env::set_var("VSIM_NOASLR", "1");
    let exe = std::env::current_exe().expect("current_exe");
    let args: Vec<String> = std::env::args().skip(1).collect();
    use std::os::unix::process::CommandExt;
    let e = std::process::Command::new(exe).args(args).exec();
    eprintln!("HARNESS-ERROR re-exec failed: {e}");
    std::process::exit(2);
}

fn arg_val(args: &[String], name: &str) -> Option<String> {
    args.iter().position(|a| a == name).and_then(|i| args.get(i + 1).cloned())
}

fn main() {
    ensure_no_aslr();
    // page faults are very expensive in this VM under parallel load: keep freed memory in the heap
    unsafe {
        _ = libc::mallopt(libc::M_TRIM_THRESHOLD, 1 << 30);
        _ = libc::mallopt(libc::M_MMAP_THRESHOLD, 1 << 30);
        _ = libc::mallopt(libc::M_TOP_PAD, 64 << 20);
    }
    let args: Vec<String> = std::env::args().skip(1).collect();
    let tier = match arg_val(&args, "--tier").or_else(|| std::env::var("VERIF_TIER").ok()).as_deref() {
        Some("thorough") => Tier::Thorough,
        _ => Tier::Quick,
    };
    let seed: u64 = arg_val(&args, "--seed")
        .or_else(|| std::env::var("VERIF_SEED").ok())
        .and_then(|s| s.parse().ok())
        .unwrap_or(20_260_921);
    let jobs: u64 = arg_val(&args, "--jobs")
        .and_then(|s| s.parse().ok())
        .unwrap_or_else(|| std::thread::available_parallelism().map_or(8, |n| n.get() as u64));
    match args.first().map(String::as_str) {
        Some("batch") => {
            let id = args.get(1).cloned().unwrap_or_default();
            let Some(p) = props::find(&id) else {
                eprintln!("HARNESS-ERROR unknown property {id}");
                std::process::exit(2);
            };
            std::process::exit(driver::batch(p, tier, seed, jobs));
        }
        Some("worker") => {
            // worker <scenario> <part> <base> <tier> <w> <jobs> <runs> <millis>
            let a = &args[1..];
            let scn = scen::find(&a[0]).expect("scenario");
            let n = |i: usize| a[i].parse::<u64>().expect("number");
            let tier = if a[3] == "thorough" { Tier::Thorough } else { Tier::Quick };
            let deadline = std::time::Instant::now() + std::time::Duration::from_millis(n(7));
            driver::worker_main(1, scn, n(1) as usize, n(2), tier, n(4), n(5), n(6), deadline);
        }
        Some("one") => {
            let name = args.get(1).cloned().unwrap_or_default();
            let Some(scn) = scen::find(&name) else {
                eprintln!("HARNESS-ERROR unknown scenario {name}");
                std::process::exit(2);
            };
            let plan = match arg_val(&args, "--plan") {
                Some(f) => {
                    let j = json::J::parse(&std::fs::read_to_string(&f).expect("plan file")).expect("plan json");
                    j.get("plan").cloned().unwrap_or(j)
                }
                None => driver::plan_for(scn, seed, tier),
            };
            let record = args.iter().any(|a| a == "--record");
            let sched = arg_val(&args, "--sched-seed").and_then(|s| s.parse().ok()).unwrap_or(seed);
            let r = proc::run_one(
                scn,
                &proc::RunSpec {
                    plan: plan.clone(),
                    sched_seed: sched,
                    record,
                    replay: None,
                },
                scn.wall_ms,
                !args.iter().any(|a| a == "--verbose"),
            );
            if args.iter().any(|a| a == "--show-plan") {
                println!("{}", plan.pretty());
            }
            println!("{}", r.pretty());
        }
        Some("replay") => {
            let f = args.get(1).cloned().unwrap_or_default();
            std::process::exit(driver::replay(&f));
        }
        Some("selftest") => {
            // determinism: every scenario, N seeds, each executed twice in fresh processes (run in
            // parallel with other runs, i.e. under different load); outcome and event-log hash must agree
            let n: u64 = arg_val(&args, "--n").and_then(|s| s.parse().ok()).unwrap_or(24);
            let scns: Vec<&'static scen::Scenario> = scen::all();
            let work: std::sync::Arc<std::sync::Mutex<Vec<(&'static scen::Scenario, u64)>>> = std::sync::Arc::new(std::sync::Mutex::new(Vec::new()));
            for sc in &scns {
                for k in 0..n {
                    work.lock().expect("lock").push((sc, seed.wrapping_mul(0x9e37_79b9_7f4a_7c15).wrapping_add(k * 1_000_003)));
                }
            }
            let total = work.lock().expect("lock").len();
            let bad = std::sync::Arc::new(std::sync::Mutex::new(Vec::<String>::new()));
            let herr = std::sync::Arc::new(std::sync::atomic::AtomicU64::new(0));
            let mut hs = Vec::new();
            for _ in 0..jobs {
                let (work, bad, herr) = (work.clone(), bad.clone(), herr.clone());
                hs.push(std::thread::spawn(move || loop {
                    let Some((sc, sd)) = work.lock().expect("lock").pop() else { break };
                    let plan = driver::plan_for(sc, sd, Tier::Quick);
                    let run = || {
                        proc::run_one(
                            sc,
                            &proc::RunSpec {
                                plan: plan.clone(),
                                sched_seed: sd,
                                record: false,
                                replay: None,
                            },
                            sc.wall_ms,
                            true,
                        )
                    };
                    let (a, b) = (run(), run());
                    let key = |r: &json::J| (r.gs("outcome").to_string(), r.gs("class").to_string(), r.get("stats").map_or(String::new(), |s| s.gs("log_hash").to_string()));
                    if a.gs("outcome") == "harness-error" || b.gs("outcome") == "harness-error" {
                        _ = herr.fetch_add(1, std::sync::atomic::Ordering::SeqCst);
                    } else if key(&a) != key(&b) {
                        bad.lock().expect("lock").push(format!("{} seed {sd}: {:?} vs {:?}", sc.name, key(&a), key(&b)));
                    }
                }));
            }
            for h in hs {
                _ = h.join();
            }
            let bad = bad.lock().expect("lock").clone();
            for b in bad.iter().take(10) {
                eprintln!("NONDETERMINISTIC {b}");
            }
            println!(
                "selftest: {} scenarios x {n} seeds, each executed twice in fresh processes: {} pairs compared, {} differ, {} ended in a harness error",
                scns.len(),
                total,
                bad.len(),
                herr.load(std::sync::atomic::Ordering::SeqCst)
            );
            std::process::exit(i32::from(!bad.is_empty()) * 2);
        }
        Some("list") => {
            for s in scen::all() {
                println!("{:12} {}", s.name, s.about);
            }
            for p in props::PROPS {
                println!("{} <- {}", p.id, p.parts.iter().map(|x| x.scenario).collect::<Vec<_>>().join(", "));
            }
        }
        _ => {
            eprintln!("usage: simrun batch <PROP> | one <SCENARIO> --seed N | replay <FILE> | selftest [--n N] | list");
            std::process::exit(2);
        }
    }
}
