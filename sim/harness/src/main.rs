//! simrun: deterministic-simulation harness for open-coroutine.
//!
//!   simrun batch <PROP> [--tier quick|thorough] [--seed N] [--jobs N]
//!   simrun one <SCENARIO> --seed N [--tier T] [--record]      (one run, result JSON on stdout)
//!   simrun replay <FILE>
//!   simrun list
mod child;
mod driver;
mod json;
mod proc;
mod props;
mod scen;

use scen::Tier;

/// Same address-space layout in every process (pointers feed hashes in the code under test).
fn ensure_no_aslr() {
    const ADDR_NO_RANDOMIZE: libc::c_ulong = 0x0040000;
    if std::env::var_os("VSIM_NOASLR").is_some() {
        return;
    }
    unsafe {
        let cur = libc::personality(0xffff_ffff);
        if cur == -1 || libc::personality(cur as libc::c_ulong | ADDR_NO_RANDOMIZE) == -1 {
            eprintln!("warning: cannot disable ASLR; replays across processes may differ");
            return;
        }
    }
    std::env::set_var("VSIM_NOASLR", "1");
    let exe = std::env::current_exe().expect("current_exe");
    let args: Vec<String> = std::env::args().skip(1).collect();
    use std::os::unix::process::CommandExt;
    let e = std::process::Command::new(exe).args(args).exec();
    eprintln!("HARNESS-ERROR re-exec failed: {e}");
    std::process::exit(2);
}

fn arg_val(args: &[String], name: &str) -> Option<String> {
    args.iter().position(|a| a == name).and_then(|i| args.get(i + 1).cloned())
}

fn main() {
    ensure_no_aslr();
    // page faults are very expensive in this VM under parallel load: keep freed memory in the heap
    unsafe {
        _ = libc::mallopt(libc::M_TRIM_THRESHOLD, 1 << 30);
        _ = libc::mallopt(libc::M_MMAP_THRESHOLD, 1 << 30);
        _ = libc::mallopt(libc::M_TOP_PAD, 64 << 20);
    }
    let args: Vec<String> = std::env::args().skip(1).collect();
    let tier = match arg_val(&args, "--tier").or_else(|| std::env::var("VERIF_TIER").ok()).as_deref() {
        Some("thorough") => Tier::Thorough,
        _ => Tier::Quick,
    };
    let seed: u64 = arg_val(&args, "--seed")
        .or_else(|| std::env::var("VERIF_SEED").ok())
        .and_then(|s| s.parse().ok())
        .unwrap_or(20_260_921);
    let jobs: u64 = arg_val(&args, "--jobs")
        .and_then(|s| s.parse().ok())
        .unwrap_or_else(|| std::thread::available_parallelism().map_or(8, |n| n.get() as u64));
    match args.first().map(String::as_str) {
        Some("batch") => {
            let id = args.get(1).cloned().unwrap_or_default();
            let Some(p) = props::find(&id) else {
                eprintln!("HARNESS-ERROR unknown property {id}");
                std::process::exit(2);
            };
            std::process::exit(driver::batch(p, tier, seed, jobs));
        }
        Some("worker") => {
            // worker <scenario> <part> <base> <tier> <w> <jobs> <runs> <millis>
            let a = &args[1..];
            let scn = scen::find(&a[0]).expect("scenario");
            let n = |i: usize| a[i].parse::<u64>().expect("number");
            let tier = if a[3] == "thorough" { Tier::Thorough } else { Tier::Quick };
            let deadline = std::time::Instant::now() + std::time::Duration::from_millis(n(7));
            driver::worker_main(1, scn, n(1) as usize, n(2), tier, n(4), n(5), n(6), deadline);
        }
        Some("one") => {
            let name = args.get(1).cloned().unwrap_or_default();
            let Some(scn) = scen::find(&name) else {
                eprintln!("HARNESS-ERROR unknown scenario {name}");
                std::process::exit(2);
            };
            let plan = match arg_val(&args, "--plan") {
                Some(f) => {
                    let j = json::J::parse(&std::fs::read_to_string(&f).expect("plan file")).expect("plan json");
                    j.get("plan").cloned().unwrap_or(j)
                }
                None => driver::plan_for(scn, seed, tier),
            };
            let record = args.iter().any(|a| a == "--record");
            let sched = arg_val(&args, "--sched-seed").and_then(|s| s.parse().ok()).unwrap_or(seed);
            let r = proc::run_one(
                scn,
                &proc::RunSpec {
                    plan: plan.clone(),
                    sched_seed: sched,
                    record,
                    replay: None,
                },
                scn.wall_ms,
                !args.iter().any(|a| a == "--verbose"),
            );
            if args.iter().any(|a| a == "--show-plan") {
                println!("{}", plan.pretty());
            }
            println!("{}", r.pretty());
        }
        Some("replay") => {
            let f = args.get(1).cloned().unwrap_or_default();
            std::process::exit(driver::replay(&f));
        }
        Some("list") => {
            for s in scen::all() {
                println!("{:12} {}", s.name, s.about);
            }
            for p in props::PROPS {
                println!("{} <- {}", p.id, p.parts.iter().map(|x| x.scenario).collect::<Vec<_>>().join(", "));
            }
        }
        _ => {
            eprintln!("usage: simrun batch <PROP> | one <SCENARIO> --seed N | replay <FILE> | list");
            std::process::exit(2);
        }
    }
}
