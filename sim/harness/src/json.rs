//! Minimal JSON value, writer and parser (no external crates: nothing can be fetched here).
use std::fmt::Write as _;

#[derive(Clone, Debug, PartialEq)]
pub enum J {
    Null,
    Bool(bool),
    Int(i128),
    F(f64),
    Str(String),
    Arr(Vec<J>),
    Obj(Vec<(String, J)>),
}

impl From<bool> for J {
    fn from(v: bool) -> J {
        J::Bool(v)
    }
}
impl From<&str> for J {
    fn from(v: &str) -> J {
        J::Str(v.to_string())
    }
}
impl From<String> for J {
    fn from(v: String) -> J {
        J::Str(v)
    }
}
impl From<f64> for J {
    fn from(v: f64) -> J {
        J::F(v)
    }
}
macro_rules! from_int {
    ($($t:ty),*) => {$(
        impl From<$t> for J { fn from(v: $t) -> J { J::Int(v as i128) } }
    )*};
}
from_int!(u8, u16, u32, u64, usize, i8, i16, i32, i64, isize, i128);
impl<T: Into<J>> From<Vec<T>> for J {
    fn from(v: Vec<T>) -> J {
        J::Arr(v.into_iter().map(Into::into).collect())
    }
}

#[macro_export]
macro_rules! obj {
    ($($k:expr => $v:expr),* $(,)?) => {
        $crate::json::J::Obj(vec![$(($k.to_string(), $crate::json::J::from($v))),*])
    };
}

impl J {
    pub fn get(&self, k: &str) -> Option<&J> {
        match self {
            J::Obj(v) => v.iter().find(|(kk, _)| kk == k).map(|(_, v)| v),
            _ => None,
        }
    }
    pub fn get_mut(&mut self, k: &str) -> Option<&mut J> {
        match self {
            J::Obj(v) => v.iter_mut().find(|(kk, _)| kk == k).map(|(_, v)| v),
            _ => None,
        }
    }
    pub fn set(&mut self, k: &str, val: J) {
        if let J::Obj(v) = self {
            if let Some(e) = v.iter_mut().find(|(kk, _)| kk == k) {
                e.1 = val;
            } else {
                v.push((k.to_string(), val));
            }
        }
    }
    pub fn i(&self) -> i128 {
        match self {
            J::Int(i) => *i,
            J::F(f) => *f as i128,
            J::Bool(b) => i128::from(*b),
            _ => 0,
        }
    }
    pub fn u(&self) -> u64 {
        self.i() as u64
    }
    pub fn us(&self) -> usize {
        self.i() as usize
    }
    pub fn b(&self) -> bool {
        matches!(self, J::Bool(true))
    }
    pub fn s(&self) -> &str {
        match self {
            J::Str(s) => s,
            _ => "",
        }
    }
    pub fn arr(&self) -> &[J] {
        match self {
            J::Arr(v) => v,
            _ => &[],
        }
    }
    pub fn arr_mut(&mut self) -> Option<&mut Vec<J>> {
        match self {
            J::Arr(v) => Some(v),
            _ => None,
        }
    }
    /// field access helpers that tolerate absence
    pub fn gi(&self, k: &str) -> i128 {
        self.get(k).map_or(0, J::i)
    }
    pub fn gu(&self, k: &str) -> u64 {
        self.get(k).map_or(0, J::u)
    }
    pub fn gus(&self, k: &str) -> usize {
        self.get(k).map_or(0, J::us)
    }
    pub fn gb(&self, k: &str) -> bool {
        self.get(k).is_some_and(J::b)
    }
    pub fn gs(&self, k: &str) -> &str {
        self.get(k).map_or("", J::s)
    }
    pub fn ga(&self, k: &str) -> &[J] {
        self.get(k).map_or(&[], J::arr)
    }

    pub fn write(&self, out: &mut String) {
        match self {
            J::Null => out.push_str("null"),
            J::Bool(b) => out.push_str(if *b { "true" } else { "false" }),
            J::Int(i) => {
                _ = write!(out, "{i}");
            }
            J::F(f) => {
                if !f.is_finite() {
                    out.push_str("null");
                } else if f.fract() == 0.0 && f.abs() < 1e15 {
                    _ = write!(out, "{f:.1}");
                } else {
                    _ = write!(out, "{f}");
                }
            }
            J::Str(s) => write_str(s, out),
            J::Arr(v) => {
                out.push('[');
                for (i, x) in v.iter().enumerate() {
                    if i > 0 {
                        out.push(',');
                    }
                    x.write(out);
                }
                out.push(']');
            }
            J::Obj(v) => {
                out.push('{');
                for (i, (k, x)) in v.iter().enumerate() {
                    if i > 0 {
                        out.push(',');
                    }
                    write_str(k, out);
                    out.push(':');
                    x.write(out);
                }
                out.push('}');
            }
        }
    }

    pub fn to_string(&self) -> String {
        let mut s = String::new();
        self.write(&mut s);
        s
    }

    pub fn pretty(&self) -> String {
        let mut s = String::new();
        self.write_pretty(&mut s, 0);
        s.push('\n');
        s
    }

    fn write_pretty(&self, out: &mut String, ind: usize) {
        match self {
            J::Arr(v) if !v.is_empty() && v.iter().any(|x| matches!(x, J::Arr(_) | J::Obj(_))) => {
                out.push_str("[\n");
                for (i, x) in v.iter().enumerate() {
                    out.push_str(&" ".repeat(ind + 1));
                    x.write_pretty(out, ind + 1);
                    if i + 1 < v.len() {
                        out.push(',');
                    }
                    out.push('\n');
                }
                out.push_str(&" ".repeat(ind));
                out.push(']');
            }
            J::Obj(v) if !v.is_empty() && ind < 3 => {
                out.push_str("{\n");
                for (i, (k, x)) in v.iter().enumerate() {
                    out.push_str(&" ".repeat(ind + 1));
                    write_str(k, out);
                    out.push_str(": ");
                    x.write_pretty(out, ind + 1);
                    if i + 1 < v.len() {
                        out.push(',');
                    }
                    out.push('\n');
                }
                out.push_str(&" ".repeat(ind));
                out.push('}');
            }
            _ => self.write(out),
        }
    }

    pub fn parse(s: &str) -> Result<J, String> {
        let b = s.as_bytes();
        let mut p = 0usize;
        let v = parse_val(b, &mut p)?;
        skip_ws(b, &mut p);
        if p != b.len() {
            return Err(format!("trailing data at {p}"));
        }
        Ok(v)
    }
}

fn write_str(s: &str, out: &mut String) {
    out.push('"');
    for c in s.chars() {
        match c {
            '"' => out.push_str("\\\""),
            '\\' => out.push_str("\\\\"),
            '\n' => out.push_str("\\n"),
            '\r' => out.push_str("\\r"),
            '\t' => out.push_str("\\t"),
            c if (c as u32) < 0x20 => {
                _ = write!(out, "\\u{:04x}", c as u32);
            }
            c => out.push(c),
        }
    }
    out.push('"');
}

fn skip_ws(b: &[u8], p: &mut usize) {
    while *p < b.len() && matches!(b[*p], b' ' | b'\n' | b'\r' | b'\t') {
        *p += 1;
    }
}

fn parse_val(b: &[u8], p: &mut usize) -> Result<J, String> {
    skip_ws(b, p);
    if *p >= b.len() {
        return Err("eof".into());
    }
    match b[*p] {
        b'n' => lit(b, p, "null", J::Null),
        b't' => lit(b, p, "true", J::Bool(true)),
        b'f' => lit(b, p, "false", J::Bool(false)),
        b'"' => parse_str(b, p).map(J::Str),
        b'[' => {
            *p += 1;
            let mut v = Vec::new();
            skip_ws(b, p);
            if *p < b.len() && b[*p] == b']' {
                *p += 1;
                return Ok(J::Arr(v));
            }
            loop {
                v.push(parse_val(b, p)?);
                skip_ws(b, p);
                match b.get(*p) {
                    Some(b',') => *p += 1,
                    Some(b']') => {
                        *p += 1;
                        return Ok(J::Arr(v));
                    }
                    _ => return Err(format!("bad array at {p}", p = *p)),
                }
            }
        }
        b'{' => {
            *p += 1;
            let mut v = Vec::new();
            skip_ws(b, p);
            if *p < b.len() && b[*p] == b'}' {
                *p += 1;
                return Ok(J::Obj(v));
            }
            loop {
                skip_ws(b, p);
                let k = parse_str(b, p)?;
                skip_ws(b, p);
                if b.get(*p) != Some(&b':') {
                    return Err(format!("expected : at {p}", p = *p));
                }
                *p += 1;
                let x = parse_val(b, p)?;
                v.push((k, x));
                skip_ws(b, p);
                match b.get(*p) {
                    Some(b',') => *p += 1,
                    Some(b'}') => {
                        *p += 1;
                        return Ok(J::Obj(v));
                    }
                    _ => return Err(format!("bad object at {p}", p = *p)),
                }
            }
        }
        _ => {
            let st = *p;
            while *p < b.len() && matches!(b[*p], b'-' | b'+' | b'.' | b'e' | b'E' | b'0'..=b'9') {
                *p += 1;
            }
            let t = std::str::from_utf8(&b[st..*p]).map_err(|e| e.to_string())?;
            if let Ok(i) = t.parse::<i128>() {
                Ok(J::Int(i))
            } else {
                t.parse::<f64>().map(J::F).map_err(|e| format!("{e} at {st}"))
            }
        }
    }
}

fn lit(b: &[u8], p: &mut usize, s: &str, v: J) -> Result<J, String> {
    if b[*p..].starts_with(s.as_bytes()) {
        *p += s.len();
        Ok(v)
    } else {
        Err(format!("bad literal at {p}", p = *p))
    }
}

fn parse_str(b: &[u8], p: &mut usize) -> Result<String, String> {
    if b.get(*p) != Some(&b'"') {
        return Err(format!("expected string at {p}", p = *p));
    }
    *p += 1;
    let mut out = Vec::new();
    while *p < b.len() {
        match b[*p] {
            b'"' => {
                *p += 1;
                return String::from_utf8(out).map_err(|e| e.to_string());
            }
            b'\\' => {
                *p += 1;
                match b.get(*p) {
                    Some(b'n') => out.push(b'\n'),
                    Some(b'r') => out.push(b'\r'),
                    Some(b't') => out.push(b'\t'),
                    Some(b'b') => out.push(8),
                    Some(b'f') => out.push(12),
                    Some(b'u') => {
                        let h = std::str::from_utf8(&b[*p + 1..*p + 5]).map_err(|e| e.to_string())?;
                        let c = u32::from_str_radix(h, 16).map_err(|e| e.to_string())?;
                        let ch = char::from_u32(c).unwrap_or('?');
                        let mut buf = [0u8; 4];
                        out.extend_from_slice(ch.encode_utf8(&mut buf).as_bytes());
                        *p += 4;
                    }
                    Some(c) => out.push(*c),
                    None => return Err("eof in escape".into()),
                }
                *p += 1;
            }
            c => {
                out.push(c);
                *p += 1;
            }
        }
    }
    Err("unterminated string".into())
}
