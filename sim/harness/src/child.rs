//! One simulated run, inside a forked child process.
use crate::json::J;
use crate::obj;
use std::sync::atomic::{AtomicBool, AtomicI32, Ordering};
use std::sync::Mutex;
use vstd::sim::{self, Abort, Config, Strategy};

static RESULT_FD: AtomicI32 = AtomicI32::new(1);
static CUR_IDX: std::sync::atomic::AtomicU64 = std::sync::atomic::AtomicU64::new(0);
static RECORD: AtomicBool = AtomicBool::new(false);
static NOTES: Mutex<Vec<(String, J)>> = Mutex::new(Vec::new());
static PROBES: Mutex<Vec<&'static str>> = Mutex::new(Vec::new());
static LAST_PANIC: Mutex<String> = Mutex::new(String::new());

pub fn last_panic() -> String {
    LAST_PANIC.lock().unwrap_or_else(|e| e.into_inner()).clone()
}
/// monitored calls in flight: (tid, name, points-of-thread at entry, sim time at entry)
static MON: Mutex<Vec<(usize, String, u64)>> = Mutex::new(Vec::new());
static STUCK_LIMIT_NS: std::sync::atomic::AtomicU64 = std::sync::atomic::AtomicU64::new(u64::MAX);
static ABORT_MAP: Mutex<Option<fn(Abort, &str) -> Option<(String, String)>>> = Mutex::new(None);

pub fn set_result_fd(fd: i32) {
    RESULT_FD.store(fd, Ordering::SeqCst);
}

/// Attach a key to the result (shown in replay files and evidence samples).
pub fn note(k: &str, v: impl Into<J>) {
    let mut n = NOTES.lock().unwrap_or_else(|e| e.into_inner());
    let v = v.into();
    if let Some(e) = n.iter_mut().find(|(kk, _)| kk == k) {
        e.1 = v;
    } else {
        n.push((k.to_string(), v));
    }
}

/// "this rare branch / interesting condition was reached" marker
pub fn probe(name: &'static str) {
    sim::count(name);
    let mut p = PROBES.lock().unwrap_or_else(|e| e.into_inner());
    if !p.contains(&name) {
        p.push(name);
    }
}

pub fn mon_enter(name: &str) {
    let tid = sim::current_tid().unwrap_or(0);
    MON.lock()
        .unwrap_or_else(|e| e.into_inner())
        .push((tid, name.to_string(), sim::now_ns()));
}

pub fn mon_exit() {
    let tid = sim::current_tid().unwrap_or(0);
    let mut m = MON.lock().unwrap_or_else(|e| e.into_inner());
    if let Some(p) = m.iter().rposition(|e| e.0 == tid) {
        _ = m.remove(p);
    }
}

/// A monitored call still in flight after this much simulated time at a budget abort is reported
/// as "call-stuck".
pub fn set_stuck_limit_ns(ns: u64) {
    STUCK_LIMIT_NS.store(ns, Ordering::SeqCst);
}

pub fn set_abort_map(f: fn(Abort, &str) -> Option<(String, String)>) {
    *ABORT_MAP.lock().unwrap_or_else(|e| e.into_inner()) = Some(f);
}

fn stats() -> J {
    let r = sim::report();
    let mut counters = Vec::new();
    for (k, v) in &r.counters {
        counters.push(((*k).to_string(), J::from(*v)));
    }
    let mut o = obj! {
        "points" => r.points,
        "switches" => r.switches,
        "sim_ns" => r.sim_ns,
        "log_hash" => format!("{:016x}", r.log_hash),
        "sched_hash" => format!("{:016x}", r.sched_hash),
        "threads" => r.threads,
        "counters" => J::Obj(counters),
    };
    if RECORD.load(Ordering::SeqCst) {
        let tr: Vec<J> = r
            .trace
            .iter()
            .map(|(s, t)| J::Arr(vec![J::from(*s), J::from(*t)]))
            .collect();
        o.set("trace", J::Arr(tr));
        let names = sim::thread_names();
        o.set("thread_names", J::Arr(names.into_iter().map(J::from).collect()));
        // last part of the event log: enough to read a failure against the source
        let n = r.log.len();
        let keep: usize = std::env::var("VSIM_LOG_TAIL").ok().and_then(|v| v.parse().ok()).unwrap_or(400);
        let from = n.saturating_sub(keep);
        let tail: Vec<J> = r.log[from..]
            .iter()
            .map(|e| J::from(format!("{} t{} +{}ns {}", e.seq, e.tid, e.now % 1_000_000_000_000, e.label)))
            .collect();
        o.set("log_tail", J::Arr(tail));
        o.set("log_len", J::from(n));
    }
    o
}

fn complete(out: &mut J) {
    sim::stop();
    out.set("stats", stats());
    out.set("idx", CUR_IDX.load(Ordering::SeqCst).into());
    let mut notes = NOTES.lock().unwrap_or_else(|e| e.into_inner()).clone();
    let lp = last_panic();
    if !lp.is_empty() && out.gs("outcome") != "ok" {
        notes.push(("last_panic".to_string(), J::from(lp)));
    }
    out.set("notes", J::Obj(notes));
}

fn emit(out: &J) {
    let mut s = out.to_string();
    s.push('\n');
    let fd = RESULT_FD.load(Ordering::SeqCst);
    let b = s.as_bytes();
    let mut off = 0;
    while off < b.len() {
        let n = unsafe { libc::write(fd, b[off..].as_ptr().cast(), b.len() - off) };
        if n <= 0 {
            break;
        }
        off += n as usize;
    }
}

pub fn finish(mut out: J) -> ! {
    complete(&mut out);
    emit(&out);
    unsafe { libc::_exit(0) }
}

/// Report a property violation and end the run (the first violation wins).
pub fn fail(class: &str, msg: String) -> ! {
    finish(obj! {"outcome" => "violation", "class" => class, "msg" => msg})
}

/// Several oracles of one run failed (they belong to different properties): the first is the run's
/// class, the others travel along so that each property's check sees its own.
pub fn fail_multi(mut all: Vec<(String, String)>) -> ! {
    if all.is_empty() {
        harness_error("fail_multi without a failure".into());
    }
    let (class, msg) = all.remove(0);
    let also: Vec<J> = all.into_iter().map(|(c, m)| obj! {"class" => c, "msg" => m}).collect();
    finish(obj! {"outcome" => "violation", "class" => class, "msg" => msg, "also" => J::Arr(also)})
}

/// Report a harness-side problem (never a VIOLATION).
pub fn harness_error(msg: String) -> ! {
    finish(obj! {"outcome" => "harness-error", "class" => "harness", "msg" => msg})
}

fn on_abort(kind: Abort, msg: String) -> ! {
    let f = *ABORT_MAP.lock().unwrap_or_else(|e| e.into_inner());
    if let Some(f) = f {
        if let Some((class, m)) = f(kind, &msg) {
            finish(obj! {"outcome" => "violation", "class" => class, "msg" => m});
        }
    }
    match kind {
        Abort::Deadlock => finish(obj! {"outcome" => "violation", "class" => "deadlock", "msg" => msg}),
        Abort::PointBudget | Abort::TimeBudget => {
            let lim = STUCK_LIMIT_NS.load(Ordering::SeqCst);
            let now = sim::now_ns();
            let m = MON.lock().unwrap_or_else(|e| e.into_inner()).clone();
            for (tid, name, t0) in m {
                if now.saturating_sub(t0) >= lim {
                    let class = if let Some((c, _)) = name.split_once('|') { c.to_string() } else { "call-stuck".to_string() };
                    finish(obj! {"outcome" => "violation", "class" => class,
                        "msg" => format!("{name} (thread t{tid}) still running {} ms after it was called; {kind:?}: {msg}", now.saturating_sub(t0) / 1_000_000)});
                }
            }
            finish(obj! {"outcome" => "harness-error", "class" => format!("{kind:?}"), "msg" => msg})
        }
        Abort::ReplayDiverged => finish(obj! {"outcome" => "harness-error", "class" => "replay-diverged", "msg" => msg}),
        Abort::ForeignStack => finish(obj! {"outcome" => "violation", "class" => "crash", "msg" => format!("memory safety: {msg}")}),
        Abort::Internal => finish(obj! {"outcome" => "harness-error", "class" => "internal", "msg" => msg}),
    }
}

fn on_fatal_signal(sig: i32, pc: usize, addr: usize) -> ! {
    // async-signal context: keep it short; the result line is one write()
    finish(obj! {"outcome" => "violation", "class" => "crash",
        "msg" => format!("unrecovered memory fault (signal {sig}) at pc {pc:#x}, address {addr:#x}: the runtime's trap handler found no coroutine to fail")})
}

/// abort() (a panic that cannot unwind, a failed allocation, an explicit abort): report the crash
/// ourselves so that the run's counters and the last panic message travel with it.
extern "C" fn on_sigabrt(_: libc::c_int) {
    unsafe {
        _ = libc::signal(libc::SIGABRT, libc::SIG_DFL);
    }
    finish(obj! {"outcome" => "violation", "class" => "crash",
        "msg" => format!("process killed by signal 6 (SIGABRT); last panic: {}", last_panic())})
}

pub fn sim_config_from(plan: &J, sched_seed: u64, record: bool, replay: Option<Vec<(u64, u32)>>) -> Config {
    let s = plan.get("sim").cloned().unwrap_or(J::Obj(vec![]));
    let strategy = match s.gs("strategy") {
        "pct" => Strategy::Pct {
            depth: s.gu("depth") as u32,
            est_len: s.gu("est_len").max(100),
        },
        "rr" => Strategy::RoundRobin {
            q: s.gu("q").max(1) as u32,
        },
        _ => Strategy::Sticky {
            p_ppm: s.get("p_ppm").map_or(50_000, J::u) as u32,
        },
    };
    let mut c = Config {
        seed: sched_seed,
        strategy,
        record,
        replay,
        ..Config::default()
    };
    if let Some(v) = s.get("delta_ns") {
        c.delta_ns = v.u();
    }
    if let Some(v) = s.get("max_points") {
        c.max_points = v.u();
    }
    if let Some(v) = s.get("max_sim_ms") {
        c.max_sim_ns = v.u().saturating_mul(1_000_000);
    }
    if let Some(v) = s.get("start_ns") {
        c.start_ns = v.u();
    }
    c.stall_ppm = s.gu("stall_ppm") as u32;
    if let Some(v) = s.get("stall_max_ns") {
        c.stall_max_ns = v.u();
    }
    c.spurious_ppm = s.gu("spurious_ppm") as u32;
    c.sig_delay_max = s.gu("sig_delay_max") as u32;
    c
}

const KNOBS: [&str; 3] = ["num_cpus", "dashmap.shards", "queue.local_capacity"];

/// Run `body` under the simulator configured by `plan["sim"]`. A violation, an abort or a harness
/// error writes its result line and ends the process; a clean run writes its line and returns, so
/// that a child can execute a chunk of runs (fork is the scarce resource in this VM).
pub fn run(idx: u64, plan: &J, sched_seed: u64, record: bool, replay: Option<Vec<(u64, u32)>>, body: fn(&J)) {
    CUR_IDX.store(idx, Ordering::SeqCst);
    RECORD.store(record, Ordering::SeqCst);
    NOTES.lock().unwrap_or_else(|e| e.into_inner()).clear();
    PROBES.lock().unwrap_or_else(|e| e.into_inner()).clear();
    MON.lock().unwrap_or_else(|e| e.into_inner()).clear();
    LAST_PANIC.lock().unwrap_or_else(|e| e.into_inner()).clear();
    STUCK_LIMIT_NS.store(u64::MAX, Ordering::SeqCst);
    *ABORT_MAP.lock().unwrap_or_else(|e| e.into_inner()) = None;
    std::panic::set_hook(Box::new(|info| {
        // no output (tasks panic on purpose); remember the message for triage
        let loc = info.location().map_or(String::new(), |l| format!("{}:{}", l.file(), l.line()));
        let msg = info
            .payload()
            .downcast_ref::<String>()
            .cloned()
            .or_else(|| info.payload().downcast_ref::<&str>().map(|s| (*s).to_string()))
            .unwrap_or_default();
        if std::env::var_os("VSIM_PANIC_TRACE").is_some() {
            eprintln!("[panic] {msg} @ {loc}");
        }
        if let Ok(mut g) = LAST_PANIC.try_lock() {
            *g = format!("{msg} @ {loc}");
        }
    }));
    let cfg = sim_config_from(plan, sched_seed, record, replay);
    sim::clear_knobs();
    if let Some(k) = plan.get("sim").and_then(|s| s.get("knobs")) {
        for name in KNOBS {
            if let Some(v) = k.get(name) {
                sim::set_knob(name, v.u());
            }
        }
    }
    sim::set_abort_handler(on_abort);
    sim::set_fatal_signal_hook(on_fatal_signal);
    unsafe {
        _ = libc::signal(libc::SIGABRT, on_sigabrt as extern "C" fn(libc::c_int) as libc::sighandler_t);
    }
    sim::start(cfg);
    let r = std::panic::catch_unwind(|| body(plan));
    if let Err(e) = r {
        let m = e
            .downcast_ref::<String>()
            .cloned()
            .or_else(|| e.downcast_ref::<&str>().map(|s| (*s).to_string()))
            .unwrap_or_else(|| "panic".into());
        // a panic escaping the scenario body is either an oracle assert or the runtime panicking on
        // the harness thread; scenarios catch what they expect, so this is reported for triage
        finish(obj! {"outcome" => "violation", "class" => "panic-on-caller-thread", "msg" => format!("{m}; {}", last_panic())});
    }
    let p = PROBES.lock().unwrap_or_else(|e| e.into_inner()).clone();
    let mut out = obj! {"outcome" => "ok", "probes" => J::Arr(p.into_iter().map(J::from).collect())};
    complete(&mut out);
    emit(&out);
}
