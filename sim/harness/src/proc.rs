//! Process plumbing: fork one child per simulated run, collect its one-line result.
use crate::child;
use crate::json::J;
use crate::obj;
use crate::scen::Scenario;
use std::io::Read;
use std::os::fd::FromRawFd;

pub const CHILD_FD: i32 = 100;

#[derive(Clone, Debug)]
pub struct RunSpec {
    pub plan: J,
    pub sched_seed: u64,
    pub record: bool,
    pub replay: Option<Vec<(u64, u32)>>,
}

fn close_other_fds(keep: i32) {
    for fd in 3..256 {
        if fd != keep {
            unsafe {
                _ = libc::close(fd);
            }
        }
    }
}

/// Run one simulation in a forked child and return its result object.
pub fn run_one(scn: &Scenario, spec: &RunSpec, wall_ms: i32, quiet: bool) -> J {
    let mut v = run_chunk(scn, &[(0, spec.clone())], wall_ms, quiet);
    v.pop().map_or_else(|| obj! {"outcome" => "harness-error", "class" => "no-result", "msg" => "no result"}, |e| e.1)
}

/// Run a chunk of simulations: one forked child executes them one after the other and streams a
/// result line per run; the first run that does not end cleanly ends that child (its line, or the
/// way the child died, is its result) and the rest of the chunk continues in a new child.
/// `wall_ms` is a real-time watchdog per run (a parked token holder would otherwise hang the batch).
pub fn run_chunk(scn: &Scenario, specs: &[(u64, RunSpec)], wall_ms: i32, quiet: bool) -> Vec<(u64, J)> {
    let mut out: Vec<(u64, J)> = Vec::new();
    let mut from = 0usize;
    while from < specs.len() {
        let got = run_chunk_once(scn, &specs[from..], wall_ms, quiet, &mut out);
        from += got.max(1);
    }
    out
}

/// Returns how many specs of the slice now have a result.
fn run_chunk_once(scn: &Scenario, specs: &[(u64, RunSpec)], wall_ms: i32, quiet: bool, out: &mut Vec<(u64, J)>) -> usize {
    let mut fds = [0i32; 2];
    if unsafe { libc::pipe(fds.as_mut_ptr()) } != 0 {
        out.push((specs[0].0, obj! {"outcome" => "harness-error", "class" => "pipe", "msg" => "pipe() failed"}));
        return 1;
    }
    let pid = unsafe { libc::fork() };
    if pid < 0 {
        out.push((specs[0].0, obj! {"outcome" => "harness-error", "class" => "fork", "msg" => "fork() failed"}));
        return 1;
    }
    if pid == 0 {
        unsafe {
            _ = libc::close(fds[0]);
            if fds[1] != CHILD_FD {
                _ = libc::dup2(fds[1], CHILD_FD);
                _ = libc::close(fds[1]);
            }
            close_other_fds(CHILD_FD);
            if quiet {
                let dn = libc::open(c"/dev/null".as_ptr(), libc::O_WRONLY);
                if dn >= 0 {
                    _ = libc::dup2(dn, 2);
                    _ = libc::dup2(dn, 1);
                    if dn > 2 {
                        _ = libc::close(dn);
                    }
                }
            }
        }
        child::set_result_fd(CHILD_FD);
        for (idx, spec) in specs {
            child::run(*idx, &spec.plan, spec.sched_seed, spec.record, spec.replay.clone(), scn.body);
        }
        unsafe { libc::_exit(0) }
    }
    unsafe {
        _ = libc::close(fds[1]);
    }
    let mut buf: Vec<u8> = Vec::new();
    let mut done = 0usize;
    let mut last = std::time::Instant::now();
    let mut timed_out = false;
    loop {
        let left = i64::from(wall_ms) - last.elapsed().as_millis() as i64;
        if left <= 0 {
            timed_out = true;
            break;
        }
        let mut p = libc::pollfd {
            fd: fds[0],
            events: libc::POLLIN,
            revents: 0,
        };
        let r = unsafe { libc::poll(&raw mut p, 1, left.min(1000) as i32) };
        if r <= 0 {
            continue;
        }
        let mut tmp = [0u8; 65536];
        let n = unsafe { libc::read(fds[0], tmp.as_mut_ptr().cast(), tmp.len()) };
        if n <= 0 {
            break;
        }
        buf.extend_from_slice(&tmp[..n as usize]);
        while let Some(pos) = buf.iter().position(|c| *c == b'\n') {
            let line: Vec<u8> = buf.drain(..=pos).collect();
            if let Ok(j) = J::parse(String::from_utf8_lossy(&line).trim()) {
                if done < specs.len() {
                    out.push((specs[done].0, j));
                    done += 1;
                    last = std::time::Instant::now();
                }
            }
        }
    }
    if timed_out {
        unsafe {
            _ = libc::kill(pid, libc::SIGKILL);
        }
    }
    let mut status = 0i32;
    unsafe {
        _ = libc::waitpid(pid, &raw mut status, 0);
        _ = libc::close(fds[0]);
    }
    if done >= specs.len() {
        return done;
    }
    let last_ok = out.last().is_some_and(|e| done > 0 && e.1.gs("outcome") == "ok");
    if done > 0 && !last_ok {
        // the child ended itself after reporting a non-clean run
        return done;
    }
    // the child died (or hung) while executing specs[done]
    let idx = specs[done].0;
    if timed_out {
        out.push((idx, obj! {"outcome" => "harness-error", "class" => "wall-timeout",
            "msg" => format!("child exceeded {wall_ms} ms of real time (a thread blocked for real while holding the token, or a loop without scheduling points)")}));
    } else if libc::WIFSIGNALED(status) {
        let sig = libc::WTERMSIG(status);
        out.push((idx, obj! {"outcome" => "violation", "class" => "crash", "msg" => format!("process killed by signal {sig} ({})", signame(sig))}));
    } else {
        let code = libc::WEXITSTATUS(status);
        out.push((idx, obj! {"outcome" => "violation", "class" => "crash", "msg" => format!("process exited with status {code} without reporting")}));
    }
    done + 1
}

fn signame(s: i32) -> &'static str {
    match s {
        libc::SIGSEGV => "SIGSEGV",
        libc::SIGABRT => "SIGABRT",
        libc::SIGBUS => "SIGBUS",
        libc::SIGILL => "SIGILL",
        libc::SIGFPE => "SIGFPE",
        libc::SIGKILL => "SIGKILL",
        _ => "?",
    }
}

/// A worker process: a fresh exec of this binary (its own address space, so that the fork/exit
/// traffic of sixteen workers does not serialise on one shared anon_vma root), which runs its share
/// of a batch and streams one JSON line per run to its stdout.
pub struct Worker {
    pub pid: i32,
    pub rd: std::fs::File,
    child: std::process::Child,
}

pub fn spawn_worker(args: &[String]) -> Worker {
    use std::os::fd::{AsRawFd, IntoRawFd};
    let exe = std::env::current_exe().expect("current_exe");
    let mut child = std::process::Command::new(exe)
        .arg("worker")
        .args(args)
        .stdin(std::process::Stdio::null())
        .stdout(std::process::Stdio::piped())
        .spawn()
        .expect("spawn worker");
    let out = child.stdout.take().expect("stdout");
    let fd = out.as_raw_fd();
    let _ = fd;
    let rd = unsafe { std::fs::File::from_raw_fd(out.into_raw_fd()) };
    Worker {
        pid: child.id() as i32,
        rd,
        child,
    }
}

pub fn write_line(fd: i32, j: &J) {
    let mut s = j.to_string();
    s.push('\n');
    let b = s.as_bytes();
    let mut off = 0;
    while off < b.len() {
        let n = unsafe { libc::write(fd, b[off..].as_ptr().cast(), b.len() - off) };
        if n <= 0 {
            break;
        }
        off += n as usize;
    }
}

/// Drain all workers, calling `on_line` for every result line, until every pipe is closed.
pub fn drain_workers(workers: Vec<Worker>, mut on_line: impl FnMut(J)) {
    let mut bufs: Vec<Vec<u8>> = workers.iter().map(|_| Vec::new()).collect();
    let mut open: Vec<bool> = workers.iter().map(|_| true).collect();
    let mut files: Vec<std::fs::File> = Vec::new();
    let mut pids = Vec::new();
    for w in workers {
        pids.push(w.child);
        files.push(w.rd);
    }
    use std::os::fd::AsRawFd;
    while open.iter().any(|o| *o) {
        let mut pfds: Vec<libc::pollfd> = Vec::new();
        let mut idx = Vec::new();
        for (i, f) in files.iter().enumerate() {
            if open[i] {
                pfds.push(libc::pollfd {
                    fd: f.as_raw_fd(),
                    events: libc::POLLIN,
                    revents: 0,
                });
                idx.push(i);
            }
        }
        let r = unsafe { libc::poll(pfds.as_mut_ptr(), pfds.len() as libc::nfds_t, 1000) };
        if r <= 0 {
            continue;
        }
        for (k, p) in pfds.iter().enumerate() {
            if p.revents == 0 {
                continue;
            }
            let i = idx[k];
            let mut tmp = [0u8; 65536];
            match files[i].read(&mut tmp) {
                Ok(0) | Err(_) => open[i] = false,
                Ok(n) => {
                    bufs[i].extend_from_slice(&tmp[..n]);
                    while let Some(pos) = bufs[i].iter().position(|c| *c == b'\n') {
                        let line: Vec<u8> = bufs[i].drain(..=pos).collect();
                        if let Ok(j) = J::parse(String::from_utf8_lossy(&line).trim()) {
                            on_line(j);
                        }
                    }
                }
            }
        }
    }
    for mut c in pids {
        _ = c.wait();
    }
}
