#![allow(clippy::all, clippy::pedantic)]
use std::ops::Range;
use vstd::sim;

#[derive(Debug, Clone, Copy, Default)]
pub struct SimRng;

#[must_use]
pub fn rng() -> SimRng {
    SimRng
}

pub trait RngExt {
    fn random_range(&mut self, r: Range<usize>) -> usize;
}

impl RngExt for SimRng {
    fn random_range(&mut self, r: Range<usize>) -> usize {
        assert!(r.start < r.end, "cannot sample empty range");
        let n = (r.end - r.start) as u64;
        r.start + sim::id_rng(|g| g.below(n)) as usize
    }
}

pub trait Rng: RngExt {}
impl Rng for SimRng {}
