#![allow(clippy::all, clippy::pedantic)]
pub mod map {
    pub use cbs_real::map::{Entry, Iter};
    use vstd::sim;

    /// The real lock-free skip map; modelled as linearizable: one scheduling point per call.
    pub struct SkipMap<K, V>(cbs_real::SkipMap<K, V>);

    impl<K: Ord, V> Default for SkipMap<K, V> {
        fn default() -> Self {
            SkipMap::new()
        }
    }

    impl<K: Ord + std::fmt::Debug, V: std::fmt::Debug> std::fmt::Debug for SkipMap<K, V> {
        fn fmt(&self, f: &mut std::fmt::Formatter<'_>) -> std::fmt::Result {
            self.0.fmt(f)
        }
    }

    impl<K: Ord, V> SkipMap<K, V> {
        pub fn new() -> Self {
            SkipMap(cbs_real::SkipMap::new())
        }
        pub fn is_empty(&self) -> bool {
            sim::point("skipmap.is_empty");
            self.0.is_empty()
        }
        pub fn len(&self) -> usize {
            sim::point("skipmap.len");
            self.0.len()
        }
        pub fn iter(&self) -> Iter<'_, K, V> {
            sim::point("skipmap.iter");
            self.0.iter()
        }
        pub fn front(&self) -> Option<Entry<'_, K, V>> {
            sim::point("skipmap.front");
            self.0.front()
        }
        pub fn back(&self) -> Option<Entry<'_, K, V>> {
            sim::point("skipmap.back");
            self.0.back()
        }
        pub fn get<Q>(&self, key: &Q) -> Option<Entry<'_, K, V>>
        where
            K: std::borrow::Borrow<Q>,
            Q: Ord + ?Sized,
        {
            sim::point("skipmap.get");
            self.0.get(key)
        }
        pub fn get_or_insert(&self, key: K, value: V) -> Entry<'_, K, V> {
            sim::point("skipmap.get_or_insert");
            self.0.get_or_insert(key, value)
        }
        pub fn get_or_insert_with<F: FnOnce() -> V>(&self, key: K, f: F) -> Entry<'_, K, V> {
            sim::point("skipmap.get_or_insert_with");
            self.0.get_or_insert_with(key, f)
        }
        /// Entries without a scheduling point (oracle use only).
        pub fn peek_iter(&self) -> Iter<'_, K, V> {
            self.0.iter()
        }
    }

    impl<K: Ord + Send + 'static, V: Send + 'static> SkipMap<K, V> {
        pub fn insert(&self, key: K, value: V) -> Entry<'_, K, V> {
            sim::point("skipmap.insert");
            self.0.insert(key, value)
        }
        pub fn remove<Q>(&self, key: &Q) -> Option<Entry<'_, K, V>>
        where
            K: std::borrow::Borrow<Q>,
            Q: Ord + ?Sized,
        {
            sim::point("skipmap.remove");
            self.0.remove(key)
        }
    }

    impl<'a, K: Ord, V> IntoIterator for &'a SkipMap<K, V> {
        type Item = Entry<'a, K, V>;
        type IntoIter = Iter<'a, K, V>;
        fn into_iter(self) -> Iter<'a, K, V> {
            self.iter()
        }
    }
}
pub use map::SkipMap;
