#![allow(clippy::all, clippy::pedantic)]
pub use nix_real::*;

pub mod sys {
    pub use nix_real::sys::*;

    pub mod pthread {
        pub use nix_real::sys::pthread::*;
        use nix_real::sys::signal::Signal;
        use vstd::sim;

        /// SIGURG / SIGVTALRM: queued on the simulated thread. Anything else: the real call.
        pub fn pthread_kill<T>(thread: Pthread, signal: T) -> nix_real::Result<()>
        where
            T: Into<Option<Signal>>,
        {
            let signal: Option<Signal> = signal.into();
            match signal {
                Some(s @ (Signal::SIGURG | Signal::SIGVTALRM)) => {
                    sim::point("pthread_kill");
                    if sim::queue_signal(thread as u64, s as i32) {
                        Ok(())
                    } else {
                        sim::count("signal.no-such-thread");
                        Err(nix_real::errno::Errno::ESRCH)
                    }
                }
                other => nix_real::sys::pthread::pthread_kill(thread, other),
            }
        }
    }

    pub mod signal {
        pub use nix_real::sys::signal::*;
        use vstd::sim::{self, SigHandlerFn};

        /// SIGURG / SIGVTALRM handlers are recorded by the simulator instead of being installed.
        ///
        /// # Safety
        /// as the real `sigaction`
        pub unsafe fn sigaction(signal: Signal, sigaction: &SigAction) -> nix_real::Result<SigAction> {
            match signal {
                Signal::SIGURG | Signal::SIGVTALRM => {
                    match sigaction.handler() {
                        SigHandler::Handler(f) => {
                            sim::set_signal_handler(signal as i32, SigHandlerFn::Plain(f));
                        }
                        SigHandler::SigAction(f) => {
                            sim::set_signal_handler(signal as i32, SigHandlerFn::Info(f));
                        }
                        _ => {}
                    }
                    Ok(SigAction::new(
                        SigHandler::SigDfl,
                        SaFlags::empty(),
                        SigSet::empty(),
                    ))
                }
                _ => nix_real::sys::signal::sigaction(signal, sigaction),
            }
        }
    }
}
