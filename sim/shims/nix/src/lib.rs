#![allow(clippy::all, clippy::pedantic)]
pub use nix_real::*;

pub mod sys {
    pub use nix_real::sys::*;

    pub mod pthread {
        pub use nix_real::sys::pthread::*;
        use nix_real::sys::signal::Signal;
        use vstd::sim;

        /// SIGURG / SIGVTALRM: queued on the simulated thread. Anything else: the real call.
        pub fn pthread_kill<T>(thread: Pthread, signal: T) -> nix_real::Result<()>
        where
            T: Into<Option<Signal>>,
        {
            let signal: Option<Signal> = signal.into();
            match signal {
                Some(s @ (Signal::SIGURG | Signal::SIGVTALRM)) => {
                    sim::point("pthread_kill");
                    if sim::queue_signal(thread as u64, s as i32) {
                        Ok(())
                    } else {
                        sim::count("signal.no-such-thread");
                        Err(nix_real::errno::Errno::ESRCH)
                    }
                }
                other => nix_real::sys::pthread::pthread_kill(thread, other),
            }
        }
    }

    pub mod signal {
        pub use nix_real::sys::signal::*;
        use vstd::sim::{self, SigHandlerFn};

        /// SIGURG / SIGVTALRM handlers are recorded by the simulator instead of being installed.
        ///
        /// # Safety
        /// as the real `sigaction`
        pub unsafe fn sigaction(signal: Signal, sigaction: &SigAction) -> nix_real::Result<SigAction> {
            match signal {
                Signal::SIGURG | Signal::SIGVTALRM => {
                    match sigaction.handler() {
                        SigHandler::Handler(f) => {
                            sim::set_signal_handler(signal as i32, SigHandlerFn::Plain(f));
                        }
                        SigHandler::SigAction(f) => {
                            sim::set_signal_handler(signal as i32, SigHandlerFn::Info(f));
                        }
                        _ => {}
                    }
                    Ok(SigAction::new(
                        SigHandler::SigDfl,
                        SaFlags::empty(),
                        SigSet::empty(),
                    ))
                }
                Signal::SIGSEGV | Signal::SIGBUS => {
                    // Real signal, real handler -- wrapped: if the handler of the code under test
                    // returns without redirecting the faulting context (no coroutine to blame),
                    // the fault would repeat forever; report it as a crash instead of hanging.
                    if let SigHandler::SigAction(f) = sigaction.handler() {
                        INNER_TRAP.store(f as usize, std::sync::atomic::Ordering::SeqCst);
                        let wrapped = SigAction::new(
                            SigHandler::SigAction(trap_wrapper),
                            sigaction.flags() | SaFlags::SA_SIGINFO,
                            sigaction.mask(),
                        );
                        nix_real::sys::signal::sigaction(signal, &wrapped)
                    } else {
                        nix_real::sys::signal::sigaction(signal, sigaction)
                    }
                }
                _ => nix_real::sys::signal::sigaction(signal, sigaction),
            }
        }

        static INNER_TRAP: std::sync::atomic::AtomicUsize = std::sync::atomic::AtomicUsize::new(0);

        extern "C" fn trap_wrapper(sig: libc::c_int, info: *mut libc::siginfo_t, ctx: *mut libc::c_void) {
            unsafe {
                let uc = ctx.cast::<libc::ucontext_t>();
                let pc_before = (*uc).uc_mcontext.gregs[libc::REG_RIP as usize];
                let inner = INNER_TRAP.load(std::sync::atomic::Ordering::SeqCst);
                if inner != 0 {
                    let f: extern "C" fn(libc::c_int, *mut libc::siginfo_t, *mut libc::c_void) = std::mem::transmute(inner);
                    f(sig, info, ctx);
                }
                let pc_after = (*uc).uc_mcontext.gregs[libc::REG_RIP as usize];
                if pc_before == pc_after {
                    let addr = (*info).si_addr() as usize;
                    sim::fatal_signal(sig, pc_before as usize, addr);
                }
            }
        }
    }
}
