#![allow(clippy::all, clippy::pedantic)]
pub use nix_real::*;

pub mod sys {
    pub use nix_real::sys::*;

    pub mod pthread {
        pub use nix_real::sys::pthread::*;
        use nix_real::sys::signal::Signal;
        use vstd::sim;

        /// SIGURG / SIGVTALRM: queued on the simulated thread. Anything else: the real call.
        pub fn pthread_kill<T>(thread: Pthread, signal: T) -> nix_real::Result<()>
        where
            T: Into<Option<Signal>>,
        {
            let signal: Option<Signal> = signal.into();
            match signal {
                Some(s @ (Signal::SIGURG | Signal::SIGVTALRM)) => {
                    sim::point("pthread_kill");
                    if sim::queue_signal(thread as u64, s as i32) {
                        Ok(())
                    } else {
                        sim::count("signal.no-such-thread");
                        Err(nix_real::errno::Errno::ESRCH)
                    }
                }
                other => nix_real::sys::pthread::pthread_kill(thread, other),
            }
        }
    }

    pub mod signal {
        pub use nix_real::sys::signal::*;
        use nix_real::sys::signal as real;
        use vstd::sim::{self, SigHandlerFn};

        fn simulated(s: Signal) -> bool {
            matches!(s, Signal::SIGURG | Signal::SIGVTALRM)
        }

        fn bits_of(set: &real::SigSet) -> u64 {
            let mut b = 0u64;
            for s in [Signal::SIGURG, Signal::SIGVTALRM] {
                if set.contains(s) {
                    b |= 1u64 << (s as i32 as u64);
                }
            }
            b
        }

        /// `nix::sys::signal::SigSet` whose thread-mask operations act on the *simulated* mask for the
        /// signals the simulator queues (SIGURG, SIGVTALRM) and on the real mask for all others.
        #[derive(Clone, Copy, Debug, Eq, PartialEq)]
        pub struct SigSet(real::SigSet);

        impl SigSet {
            pub fn empty() -> Self {
                SigSet(real::SigSet::empty())
            }
            pub fn all() -> Self {
                SigSet(real::SigSet::all())
            }
            pub fn add(&mut self, s: Signal) {
                self.0.add(s);
            }
            pub fn remove(&mut self, s: Signal) {
                self.0.remove(s);
            }
            pub fn clear(&mut self) {
                self.0.clear();
            }
            pub fn contains(&self, s: Signal) -> bool {
                self.0.contains(s)
            }
            pub fn real(&self) -> real::SigSet {
                self.0
            }
            fn without_simulated(&self) -> real::SigSet {
                let mut r = self.0;
                r.remove(Signal::SIGURG);
                r.remove(Signal::SIGVTALRM);
                r
            }
            pub fn thread_get_mask() -> nix_real::Result<Self> {
                sim::point("sigmask.get");
                let mut r = real::SigSet::thread_get_mask()?;
                let m = sim::sigmask_get();
                for s in [Signal::SIGURG, Signal::SIGVTALRM] {
                    if (m >> (s as i32 as u64)) & 1 == 1 {
                        r.add(s);
                    } else {
                        r.remove(s);
                    }
                }
                Ok(SigSet(r))
            }
            pub fn thread_set_mask(&self) -> nix_real::Result<()> {
                sim::point("sigmask.set");
                sim::sigmask_set(bits_of(&self.0));
                self.without_simulated().thread_set_mask()
            }
            pub fn thread_block(&self) -> nix_real::Result<()> {
                sim::point("sigmask.block");
                sim::sigmask_set(sim::sigmask_get() | bits_of(&self.0));
                self.without_simulated().thread_block()
            }
            pub fn thread_unblock(&self) -> nix_real::Result<()> {
                sim::point("sigmask.unblock");
                sim::sigmask_set(sim::sigmask_get() & !bits_of(&self.0));
                self.without_simulated().thread_unblock()
            }
        }

        /// `nix::sys::signal::SigAction` over the wrapper set.
        #[derive(Clone, Copy)]
        pub struct SigAction {
            handler: SigHandler,
            flags: SaFlags,
            mask: SigSet,
        }

        impl SigAction {
            pub fn new(handler: SigHandler, flags: SaFlags, mask: SigSet) -> Self {
                SigAction { handler, flags, mask }
            }
            pub fn handler(&self) -> SigHandler {
                self.handler
            }
            pub fn flags(&self) -> SaFlags {
                self.flags
            }
            pub fn mask(&self) -> SigSet {
                self.mask
            }
            fn real(&self) -> real::SigAction {
                real::SigAction::new(self.handler, self.flags, self.mask.0)
            }
            fn of(r: &real::SigAction) -> Self {
                SigAction { handler: r.handler(), flags: r.flags(), mask: SigSet(r.mask()) }
            }
        }

        /// SIGURG / SIGVTALRM handlers are recorded by the simulator (with their sa_mask and
        /// SA_NODEFER) instead of being installed.
        ///
        /// # Safety
        /// as the real `sigaction`
        pub unsafe fn sigaction(signal: Signal, sigaction: &SigAction) -> nix_real::Result<SigAction> {
            match signal {
                s if simulated(s) => {
                    let sa_mask = bits_of(&sigaction.mask.0);
                    let nodefer = sigaction.flags.contains(SaFlags::SA_NODEFER);
                    match sigaction.handler() {
                        SigHandler::Handler(f) => {
                            sim::set_signal_handler(signal as i32, SigHandlerFn::Plain(f), sa_mask, nodefer);
                        }
                        SigHandler::SigAction(f) => {
                            sim::set_signal_handler(signal as i32, SigHandlerFn::Info(f), sa_mask, nodefer);
                        }
                        _ => {}
                    }
                    Ok(SigAction::new(SigHandler::SigDfl, SaFlags::empty(), SigSet::empty()))
                }
                Signal::SIGSEGV | Signal::SIGBUS => {
                    // Real signal, real handler -- wrapped: if the handler of the code under test
                    // returns without redirecting the faulting context (no coroutine to blame),
                    // the fault would repeat forever; report it as a crash instead of hanging.
                    if let SigHandler::SigAction(f) = sigaction.handler() {
                        INNER_TRAP.store(f as usize, std::sync::atomic::Ordering::SeqCst);
                        let wrapped = real::SigAction::new(
                            SigHandler::SigAction(trap_wrapper),
                            sigaction.flags() | SaFlags::SA_SIGINFO,
                            sigaction.mask().0,
                        );
                        real::sigaction(signal, &wrapped).map(|r| SigAction::of(&r))
                    } else {
                        real::sigaction(signal, &sigaction.real()).map(|r| SigAction::of(&r))
                    }
                }
                _ => real::sigaction(signal, &sigaction.real()).map(|r| SigAction::of(&r)),
            }
        }

        static INNER_TRAP: std::sync::atomic::AtomicUsize = std::sync::atomic::AtomicUsize::new(0);

        extern "C" fn trap_wrapper(sig: libc::c_int, info: *mut libc::siginfo_t, ctx: *mut libc::c_void) {
            unsafe {
                let uc = ctx.cast::<libc::ucontext_t>();
                let pc_before = (*uc).uc_mcontext.gregs[libc::REG_RIP as usize];
                let inner = INNER_TRAP.load(std::sync::atomic::Ordering::SeqCst);
                if inner != 0 {
                    let f: extern "C" fn(libc::c_int, *mut libc::siginfo_t, *mut libc::c_void) = std::mem::transmute(inner);
                    f(sig, info, ctx);
                }
                let pc_after = (*uc).uc_mcontext.gregs[libc::REG_RIP as usize];
                if pc_before == pc_after {
                    let addr = (*info).si_addr() as usize;
                    sim::fatal_signal(sig, pc_before as usize, addr);
                }
            }
        }
    }
}
