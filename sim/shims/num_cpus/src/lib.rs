#[must_use]
pub fn get() -> usize {
    vstd::sim::knob("num_cpus", 4) as usize
}
#[must_use]
pub fn get_physical() -> usize {
    get()
}
