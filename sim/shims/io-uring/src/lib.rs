#![allow(clippy::all, clippy::pedantic)]
//! Simulated io_uring. `opcode`, `squeue::Entry`, `types` are the real crate's (they only build the
//! 64-byte submission entry); the rings and the kernel side are replaced: `submit` hands every queued
//! entry to a policy function installed by the harness, which decides the completion's result and
//! after how much simulated time it appears in the completion queue.
pub use iou_real::{opcode, types};
use std::collections::VecDeque;
use std::sync::Mutex as StdMutex;
use vstd::sim;

pub mod squeue {
    pub use iou_real::squeue::{Entry, Flags, PushError};
}

pub mod cqueue {
    /// A completion: the submission's user_data and its result.
    #[derive(Clone, Copy, Debug)]
    pub struct Entry {
        pub(crate) user_data: u64,
        pub(crate) result: i32,
        pub(crate) flags: u32,
    }
    impl Entry {
        pub fn user_data(&self) -> u64 {
            self.user_data
        }
        pub fn result(&self) -> i32 {
            self.result
        }
        pub fn flags(&self) -> u32 {
            self.flags
        }
    }
}

/// The fields of a submission the policy may look at.
#[derive(Clone, Copy, Debug)]
pub struct Sqe {
    pub opcode: u8,
    pub fd: i32,
    pub off: u64,
    pub addr: u64,
    pub len: u32,
    pub op_flags: u32,
    pub user_data: u64,
}

fn decode(e: &squeue::Entry) -> Sqe {
    // struct io_uring_sqe (64 bytes): opcode u8, flags u8, ioprio u16, fd i32, off u64, addr u64,
    // len u32, op flags u32, user_data u64, ...
    let raw: [u8; 64] = unsafe { std::mem::transmute_copy(e) };
    let u32_at = |o: usize| u32::from_ne_bytes(raw[o..o + 4].try_into().expect("4"));
    let u64_at = |o: usize| u64::from_ne_bytes(raw[o..o + 8].try_into().expect("8"));
    Sqe {
        opcode: raw[0],
        fd: u32_at(4) as i32,
        off: u64_at(8),
        addr: u64_at(16),
        len: u32_at(24),
        op_flags: u32_at(28),
        user_data: u64_at(32),
    }
}

/// (result, delay in simulated ns). A negative result is -errno.
pub type Policy = fn(&Sqe) -> (i32, u64);

fn default_policy(_: &Sqe) -> (i32, u64) {
    (0, 1_000_000)
}

static POLICY: StdMutex<Policy> = StdMutex::new(default_policy);
static SUBMITTED: StdMutex<Vec<Sqe>> = StdMutex::new(Vec::new());

pub fn vsim_set_policy(p: Policy) {
    *POLICY.lock().unwrap_or_else(|e| e.into_inner()) = p;
}

/// Everything submitted so far (harness oracle).
pub fn vsim_submitted() -> Vec<Sqe> {
    SUBMITTED.lock().unwrap_or_else(|e| e.into_inner()).clone()
}

#[derive(Default)]
struct Ring {
    sq: VecDeque<squeue::Entry>,
    /// (ready at, sequence, completion)
    pending: Vec<(u64, u64, cqueue::Entry)>,
    seq: u64,
}

pub struct IoUring {
    cap: usize,
    ring: StdMutex<Ring>,
}

impl std::fmt::Debug for IoUring {
    fn fmt(&self, f: &mut std::fmt::Formatter<'_>) -> std::fmt::Result {
        write!(f, "IoUring(sim, cap {})", self.cap)
    }
}

#[derive(Default)]
pub struct Builder;

impl Builder {
    pub fn setup_sqpoll(&mut self, _: u32) -> &mut Self {
        self
    }
    pub fn setup_sqpoll_cpu(&mut self, _: u32) -> &mut Self {
        self
    }
    pub fn build(&self, entries: u32) -> std::io::Result<IoUring> {
        IoUring::new(entries)
    }
}

/// Which opcodes the simulated kernel supports: all of them.
#[derive(Debug, Default)]
pub struct Probe;

impl Probe {
    pub fn new() -> Self {
        Probe
    }
    pub fn is_supported(&self, _: u8) -> bool {
        true
    }
}

pub struct Submitter<'a> {
    ring: &'a IoUring,
}

impl Submitter<'_> {
    pub fn register_probe(&self, _: &mut Probe) -> std::io::Result<()> {
        Ok(())
    }
    pub fn submit(&self) -> std::io::Result<usize> {
        self.ring.submit()
    }
}

pub struct SubmissionQueue<'a> {
    ring: &'a IoUring,
}

impl SubmissionQueue<'_> {
    /// # Safety
    /// as the real queue: the entry's buffers must stay valid until completion
    pub unsafe fn push(&mut self, e: &squeue::Entry) -> Result<(), PushErr> {
        sim::point("uring.sq.push");
        let mut r = self.ring.ring.lock().unwrap_or_else(|e| e.into_inner());
        if r.sq.len() >= self.ring.cap {
            return Err(PushErr);
        }
        r.sq.push_back(e.clone());
        Ok(())
    }
    pub fn is_full(&self) -> bool {
        self.ring.ring.lock().unwrap_or_else(|e| e.into_inner()).sq.len() >= self.ring.cap
    }
    pub fn is_empty(&self) -> bool {
        self.ring.ring.lock().unwrap_or_else(|e| e.into_inner()).sq.is_empty()
    }
    pub fn sync(&mut self) {}
}

#[derive(Debug)]
pub struct PushErr;

pub struct CompletionQueue<'a> {
    ring: &'a IoUring,
}

impl CompletionQueue<'_> {
    pub fn sync(&mut self) {}
    pub fn is_empty(&self) -> bool {
        let now = sim::now_ns();
        !self.ring.ring.lock().unwrap_or_else(|e| e.into_inner()).pending.iter().any(|p| p.0 <= now)
    }
}

impl Iterator for CompletionQueue<'_> {
    type Item = cqueue::Entry;
    fn next(&mut self) -> Option<cqueue::Entry> {
        sim::point("uring.cq.next");
        let now = sim::now_ns();
        let mut r = self.ring.ring.lock().unwrap_or_else(|e| e.into_inner());
        let mut best: Option<usize> = None;
        for (i, p) in r.pending.iter().enumerate() {
            if p.0 <= now && best.is_none_or(|b| (p.0, p.1) < (r.pending[b].0, r.pending[b].1)) {
                best = Some(i);
            }
        }
        best.map(|i| {
            sim::count("kern.uring-completion");
            r.pending.remove(i).2
        })
    }
}

impl IoUring {
    pub fn new(entries: u32) -> std::io::Result<IoUring> {
        Ok(IoUring {
            cap: entries.max(1) as usize,
            ring: StdMutex::new(Ring::default()),
        })
    }
    pub fn builder() -> Builder {
        Builder
    }
    pub fn submitter(&self) -> Submitter<'_> {
        Submitter { ring: self }
    }
    /// # Safety
    /// as the real call
    pub unsafe fn submission_shared(&self) -> SubmissionQueue<'_> {
        SubmissionQueue { ring: self }
    }
    /// # Safety
    /// as the real call
    pub unsafe fn completion_shared(&self) -> CompletionQueue<'_> {
        CompletionQueue { ring: self }
    }
    pub fn submit(&self) -> std::io::Result<usize> {
        sim::point("uring.submit");
        let policy = *POLICY.lock().unwrap_or_else(|e| e.into_inner());
        let now = sim::now_ns();
        let mut r = self.ring.lock().unwrap_or_else(|e| e.into_inner());
        let mut n = 0;
        while let Some(e) = r.sq.pop_front() {
            let s = decode(&e);
            let (result, delay) = if s.opcode == opcode::Timeout::CODE {
                // the timespec the entry points to: { tv_sec: i64, tv_nsec: i64 }
                let ts = unsafe { std::ptr::read(s.addr as *const [i64; 2]) };
                let ns = (ts[0] as u64).saturating_mul(1_000_000_000).saturating_add(ts[1] as u64);
                (-libc::ETIME, ns)
            } else {
                SUBMITTED.lock().unwrap_or_else(|e| e.into_inner()).push(s);
                policy(&s)
            };
            r.seq += 1;
            let seq = r.seq;
            r.pending.push((
                now.saturating_add(delay),
                seq,
                cqueue::Entry {
                    user_data: s.user_data,
                    result,
                    // a zero-copy send that was accepted announces a second completion
                    flags: if s.opcode == opcode::SendZc::CODE && result >= 0 { 2 /* IORING_CQE_F_MORE */ } else { 0 },
                },
            ));
            if s.opcode == opcode::SendZc::CODE && result >= 0 {
                // zero-copy sends post a second completion with the same user_data once the kernel no
                // longer needs the buffer: result 0, IORING_CQE_F_NOTIF
                sim::count("uring.zc-notification");
                r.seq += 1;
                let seq = r.seq;
                r.pending.push((
                    now.saturating_add(delay).saturating_add(2_500_000),
                    seq,
                    cqueue::Entry {
                        user_data: s.user_data,
                        result: 0,
                        flags: 8, /* IORING_CQE_F_NOTIF */
                    },
                ));
            }
            n += 1;
        }
        Ok(n)
    }
    pub fn submit_and_wait(&self, want: usize) -> std::io::Result<usize> {
        let n = self.submit()?;
        if want > 0 {
            // wait (simulated) until `want` completions are ready
            loop {
                let now = sim::now_ns();
                let (ready, next) = {
                    let r = self.ring.lock().unwrap_or_else(|e| e.into_inner());
                    (r.pending.iter().filter(|p| p.0 <= now).count(), r.pending.iter().map(|p| p.0).filter(|t| *t > now).min())
                };
                if ready >= want || !sim::is_active() {
                    break;
                }
                match next {
                    Some(t) => vstd::thread::sleep(std::time::Duration::from_nanos(t - now)),
                    None => break,
                }
            }
        }
        Ok(n)
    }
}
