pub use iou_real::*;
