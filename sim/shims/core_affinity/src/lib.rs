#[derive(Copy, Clone, Debug, PartialEq, Eq, PartialOrd, Ord, Hash)]
pub struct CoreId {
    pub id: usize,
}
#[must_use]
pub fn set_for_current(_: CoreId) -> bool {
    true
}
#[must_use]
pub fn get_core_ids() -> Option<Vec<CoreId>> {
    Some(vec![CoreId { id: 0 }])
}
