#![allow(clippy::all, clippy::pedantic)]
pub use mio_real::*;
use std::os::fd::{AsRawFd, RawFd};
use std::sync::Mutex as StdMutex;
use std::time::Duration;
use vstd::sim::{self, Reason, Wake};

static POLLERS: StdMutex<Vec<(usize, RawFd)>> = StdMutex::new(Vec::new());
static POLL_THREADS: StdMutex<Vec<(usize, String)>> = StdMutex::new(Vec::new());

/// Name of the thread that last waited on poller `id` (the event loop that owns it).
pub fn vsim_poller_thread(id: usize) -> Option<String> {
    POLL_THREADS.lock().unwrap_or_else(|e| e.into_inner()).iter().find(|e| e.0 == id).map(|e| e.1.clone())
}

/// Real epoll instance and registry; only the *waiting* in `poll` is simulated.
pub struct Poll {
    inner: mio_real::Poll,
    id: usize,
}

impl std::fmt::Debug for Poll {
    fn fmt(&self, f: &mut std::fmt::Formatter<'_>) -> std::fmt::Result {
        write!(f, "Poll#{}", self.id)
    }
}

/// Look (without consuming anything) whether the epoll instances of blocked pollers have events,
/// and make those pollers runnable. Called by the simulator before it advances the clock and by
/// the harness after it changed a descriptor's readiness.
pub fn vsim_check_ready() {
    let blocked = sim::blocked_pollers();
    if blocked.is_empty() {
        return;
    }
    let list = POLLERS.lock().unwrap_or_else(|e| e.into_inner()).clone();
    let mut ready = Vec::new();
    for (id, fd) in list {
        if !blocked.contains(&id) {
            continue;
        }
        let mut p = libc::pollfd {
            fd,
            events: libc::POLLIN,
            revents: 0,
        };
        let r = unsafe { libc::poll(&raw mut p, 1, 0) };
        if r > 0 && (p.revents & libc::POLLIN) != 0 {
            ready.push(id);
        }
    }
    if !ready.is_empty() {
        sim::io_poke_pollers(&ready);
    }
}

/// Raw epoll descriptors of every poller created so far (id, fd).
pub fn vsim_pollers() -> Vec<(usize, RawFd)> {
    POLLERS.lock().unwrap_or_else(|e| e.into_inner()).clone()
}

impl Poll {
    pub fn new() -> std::io::Result<Poll> {
        let inner = mio_real::Poll::new()?;
        let mut l = POLLERS.lock().unwrap_or_else(|e| e.into_inner());
        let id = l.len();
        l.push((id, inner.as_raw_fd()));
        drop(l);
        sim::set_idle_hook(vsim_check_ready);
        Ok(Poll { inner, id })
    }

    pub fn registry(&self) -> &Registry {
        self.inner.registry()
    }

    pub fn vsim_id(&self) -> usize {
        self.id
    }

    pub fn poll(&mut self, events: &mut Events, timeout: Option<Duration>) -> std::io::Result<()> {
        sim::point("mio.poll");
        {
            let mut l = POLL_THREADS.lock().unwrap_or_else(|e| e.into_inner());
            let me = std::thread::current().name().unwrap_or("?").to_string();
            match l.iter().find(|e| e.0 == self.id) {
                None => l.push((self.id, me)),
                Some(e) if e.1 != me => {
                    // an event loop's poller is being waited on by a thread that is not that loop's:
                    // a coroutine that belongs to this loop runs on another loop's thread
                    sim::count("cause.net.poller-used-by-other-thread");
                }
                Some(_) => {}
            }
        }
        if !sim::is_active() {
            return self.inner.poll(events, Some(Duration::ZERO));
        }
        let deadline = timeout
            .map(|t| sim::now_ns().saturating_add(u64::try_from(t.as_nanos()).unwrap_or(u64::MAX)));
        loop {
            self.inner.poll(events, Some(Duration::ZERO))?;
            if !events.is_empty() {
                sim::count("mio.poll.events");
                return Ok(());
            }
            if let Some(d) = deadline {
                if sim::now_ns() >= d {
                    return Ok(());
                }
            }
            if !sim::is_active() {
                return Ok(());
            }
            let w = sim::block(Reason::Poll(self.id), deadline);
            if w == Wake::Signal {
                return Err(std::io::Error::from_raw_os_error(libc::EINTR));
            }
        }
    }
}

impl AsRawFd for Poll {
    fn as_raw_fd(&self) -> RawFd {
        self.inner.as_raw_fd()
    }
}
