#![allow(clippy::all, clippy::pedantic)]
pub use cbd_real::{Steal, Stealer, Worker};
use std::sync::atomic::{AtomicUsize, Ordering};
use vstd::sim;

static TOTAL_HELD: AtomicUsize = AtomicUsize::new(0);

/// Items currently held by all injectors of the process (oracle ground truth).
pub fn vsim_total_held() -> usize {
    TOTAL_HELD.load(Ordering::SeqCst)
}

/// The real lock-free injector; modelled as linearizable: one scheduling point per call.
pub struct Injector<T> {
    inner: cbd_real::Injector<T>,
    held: AtomicUsize,
}

impl<T> Default for Injector<T> {
    fn default() -> Self {
        Injector::new()
    }
}

impl<T> std::fmt::Debug for Injector<T> {
    fn fmt(&self, f: &mut std::fmt::Formatter<'_>) -> std::fmt::Result {
        write!(f, "Injector {{ held: {} }}", self.held.load(Ordering::SeqCst))
    }
}

impl<T> Injector<T> {
    pub fn new() -> Self {
        Injector {
            inner: cbd_real::Injector::new(),
            held: AtomicUsize::new(0),
        }
    }
    pub fn push(&self, task: T) {
        sim::point("injector.push");
        self.inner.push(task);
        _ = self.held.fetch_add(1, Ordering::SeqCst);
        _ = TOTAL_HELD.fetch_add(1, Ordering::SeqCst);
        sim::aux("injector.push", std::ptr::from_ref(self) as usize, 0, 1);
        if std::any::type_name::<T>().contains("coroutine::") {
            // a coroutine left its scheduler's local queue: any scheduler may pick it up
            sim::count("cause.sched.coroutine-moved");
        }
    }
    pub fn steal(&self) -> Steal<T> {
        sim::point("injector.steal");
        let r = self.inner.steal();
        if r.is_success() {
            _ = self.held.fetch_sub(1, Ordering::SeqCst);
            _ = TOTAL_HELD.fetch_sub(1, Ordering::SeqCst);
            sim::aux("injector.pop", std::ptr::from_ref(self) as usize, 0, 1);
        }
        r
    }
    pub fn is_empty(&self) -> bool {
        sim::point("injector.is_empty");
        self.inner.is_empty()
    }
    pub fn len(&self) -> usize {
        sim::point("injector.len");
        self.inner.len()
    }
    /// Ground truth for oracles: items currently held (no scheduling point).
    pub fn peek_held(&self) -> usize {
        self.held.load(Ordering::SeqCst)
    }
}
