use crate::loom_exports::sync::atomic;

// If the target supports 64-bit atomics, use u64 as a long integer and u32 as
// short integer.
#[cfg(target_has_atomic = "64")]
pub(crate) type UnsignedShort = u32;
#[cfg(target_has_atomic = "64")]
pub(crate) type UnsignedLong = u64;
#[cfg(target_has_atomic = "64")]
pub(crate) type AtomicUnsignedShort = atomic::AtomicU32;
#[cfg(target_has_atomic = "64")]
pub(crate) type AtomicUnsignedLong = atomic::AtomicU64;

// Otherwise use u32 as long integer and u16 as short integer.
#[cfg(not(target_has_atomic = "64"))]
pub(crate) type UnsignedShort = u16;
#[cfg(not(target_has_atomic = "64"))]
pub(crate) type UnsignedLong = u32;
#[cfg(not(target_has_atomic = "64"))]
pub(crate) type AtomicUnsignedShort = atomic::AtomicU16;
#[cfg(not(target_has_atomic = "64"))]
pub(crate) type AtomicUnsignedLong = atomic::AtomicU32;
