//! # LIFO, bounded, work-stealing queue.
//!
//! ## Example
//!
//! ```
//! use std::thread;
//! use st3::lifo::Worker;
//!
//! // Push 4 items into a LIFO queue of capacity 256.
//! let worker = Worker::new(256);
//! worker.push("a").unwrap();
//! worker.push("b").unwrap();
//! worker.push("c").unwrap();
//! worker.push("d").unwrap();
//!
//! // Steal items concurrently.
//! let stealer = worker.stealer();
//! let th = thread::spawn(move || {
//!     let other_worker = Worker::new(256);
//!
//!     // Try to steal half the items and return the actual count of stolen items.
//!     match stealer.steal(&other_worker, |n| n/2) {
//!         Ok(actual) => actual,
//!         Err(_) => 0,
//!     }
//! });
//!
//! // Pop items concurrently.
//! let mut pop_count = 0;
//! while worker.pop().is_some() {
//!     pop_count += 1;
//! }
//!
//! // Does it add up?
//! let steal_count = th.join().unwrap();
//! assert_eq!(pop_count + steal_count, 4);
//! ```
use alloc::boxed::Box;
use alloc::sync::Arc;

use core::alloc::Layout;
use core::iter::FusedIterator;
use core::mem::{drop, transmute, MaybeUninit};
use core::panic::{RefUnwindSafe, UnwindSafe};
use core::sync::atomic::Ordering::{Acquire, Relaxed, Release};

use crossbeam_utils::CachePadded;

use crate::config::{AtomicUnsignedLong, AtomicUnsignedShort, UnsignedShort};
use crate::loom_exports::cell::UnsafeCell;
use crate::loom_exports::debug_or_loom_assert;
use crate::{allocate_buffer, pack, unpack, StealError};

/// A double-ended LIFO queue.
///
/// The queue tracks its tail and head position within a ring buffer with
/// wrap-around integers, where the least significant bits specify the actual
/// buffer index. All positions have bit widths that are intentionally larger
/// than necessary for buffer indexing because:
/// - an extra bit is needed to disambiguate between empty and full buffers when
///   the start and end position of the buffer are equal,
/// - the pop count and the head in `pop_count_and_head` are also used as
///   long-cycle counters to prevent ABA issues in the pop CAS and in the
///   stealer CAS.
///
/// The position of the head can be at any moment determined by subtracting 2
/// counters: the push operations counter and the pop operations counter.
#[derive(Debug)]
struct Queue<T> {
    /// Total number of push operations.
    push_count: CachePadded<AtomicUnsignedShort>,

    /// Total number of pop operations, packed together with the position of the
    /// head that a stealer will set once stealing is complete. This head
    /// position always coincides with the `head` field below if the last
    /// stealing operation has completed.
    pop_count_and_head: CachePadded<AtomicUnsignedLong>,

    /// Position of the queue head, updated after completion of each stealing
    /// operation.
    head: CachePadded<AtomicUnsignedShort>,

    /// Queue items.
    buffer: Box<[UnsafeCell<MaybeUninit<T>>]>,

    /// Mask for the buffer index.
    mask: UnsignedShort,
}

impl<T> Queue<T> {
    /// Read an item at the given position.
    ///
    /// The position is automatically mapped to a valid buffer index using a
    /// modulo operation.
    ///
    /// # Safety
    ///
    /// The item at the given position must have been initialized before and
    /// cannot have been moved out.
    ///
    /// The caller must guarantee that the item at this position cannot be
    /// written to or moved out concurrently.
    #[inline]
    unsafe fn read_at(&self, position: UnsignedShort) -> T {
        let index = (position & self.mask) as usize;
        (*self.buffer).as_ref()[index].with(|slot| slot.read().assume_init())
    }

    /// Write an item at the given position.
    ///
    /// The position is automatically mapped to a valid buffer index using a
    /// modulo operation.
    ///
    /// # Note
    ///
    /// If an item is already initialized but was not moved out yet, it will be
    /// leaked.
    ///
    /// # Safety
    ///
    /// The caller must guarantee that the item at this position cannot be read
    /// or written to concurrently.
    #[inline]
    unsafe fn write_at(&self, position: UnsignedShort, item: T) {
        let index = (position & self.mask) as usize;
        (*self.buffer).as_ref()[index].with_mut(|slot| slot.write(MaybeUninit::new(item)));
    }

    /// Attempt to book `N` items for stealing where `N` is specified by a
    /// closure which takes as argument the total count of available items.
    ///
    /// In case of success, the returned triplet is the *current* head, the
    /// *next* head and an item count at least equal to 1.
    ///
    /// # Errors
    ///
    /// An error is returned in the following cases:
    /// 1) no item could be stolen, either because the queue is empty or because
    ///    `N` is 0,
    /// 2) a concurrent stealing operation is ongoing.
    ///
    /// # Safety
    ///
    /// This function is not strictly unsafe, but because it initiates the
    /// stealing operation by modifying the post-stealing head in
    /// `push_count_and_head` without ever updating the `head` atomic variable,
    /// its misuse can result in permanently blocking subsequent stealing
    /// operations.
    fn book_items<C>(
        &self,
        mut count_fn: C,
        max_count: UnsignedShort,
    ) -> Result<(UnsignedShort, UnsignedShort, UnsignedShort), StealError>
    where
        C: FnMut(usize) -> usize,
    {
        // Ordering: Acquire on the `pop_count_and_head` load synchronizes with
        // the release at the end of a previous pop operation. It is therefore
        // warranted that the push count loaded later is at least the same as it
        // was when the pop count was set, ensuring in turn that the computed
        // tail is not less than the head and therefore the item count does not
        // wrap around. For the same reason, the failure ordering on the CAS is
        // also Acquire since the push count is loaded again at every CAS
        // iteration.
        let mut pop_count_and_head = self.pop_count_and_head.load(Acquire);

        // Ordering: Acquire on the `head` load synchronizes with a release at
        // the end of a previous steal operation. Once this head is confirmed
        // equal to the head in `pop_count_and_head`, it is therefore warranted
        // that the push count loaded later is at least the same as it was on
        // the last completed steal operation, ensuring in turn that the
        // computed tail is not less than the head and therefore the item count
        // does not wrap around. Alternatively, the ordering could be Relaxed if
        // the success ordering on the CAS was AcqRel, which would achieve the
        // same by synchronizing with the head field of `pop_count_and_head`.
        let old_head = self.head.load(Acquire);

        loop {
            let (pop_count, head) = unpack(pop_count_and_head);

            // Bail out if both heads differ because it means another stealing
            // operation is concurrently ongoing.
            if old_head != head {
                return Err(StealError::Busy);
            }

            // Ordering: Acquire synchronizes with the Release in the push
            // method and ensure that all items pushed to the queue are visible.
            let push_count = self.push_count.load(Acquire);
            let tail = push_count.wrapping_sub(pop_count);

            // Note: it is possible for the computed item_count to be spuriously
            // greater than the number of available items if, in this iteration
            // of the CAS loop, `pop_count_and_head` and `head` are both
            // obsolete. This is not an issue, however, since the CAS will then
            // fail due to `pop_count_and_head` being obsolete.
            let item_count = tail.wrapping_sub(head);

            // `item_count` is tested now because `count_fn` may expect
            // `item_count>0`.
            if item_count == 0 {
                return Err(StealError::Empty);
            }

            // Unwind safety: it is OK if `count_fn` panics because no state has
            // been modified yet.
            let count = (count_fn(item_count as usize).min(max_count as usize) as UnsignedShort)
                .min(item_count);

            // The special case `count_fn() == 0` must be tested specifically,
            // because if the compare-exchange succeeds with `count=0`, the new
            // value will be the same as the old one so other stealers will not
            // detect that stealing is currently ongoing and may try to actually
            // steal items and concurrently modify the position of the head.
            if count == 0 {
                return Err(StealError::Empty);
            }

            let new_head = head.wrapping_add(count);
            let new_pop_count_and_head = pack(pop_count, new_head);

            // Attempt to book the slots. Only one stealer can succeed since
            // once this atomic is changed, the other thread will necessarily
            // observe a mismatch between `head` and the head sub-field of
            // `pop_count_and_head`.
            //
            // Ordering: see justification for Acquire on failure in the first
            // load of `pop_count_and_head`. No further synchronization is
            // necessary on success.
            match self.pop_count_and_head.compare_exchange_weak(
                pop_count_and_head,
                new_pop_count_and_head,
                Acquire,
                Acquire,
            ) {
                Ok(_) => return Ok((head, new_head, count)),
                // We lost the race to a concurrent pop or steal operation, or
                // the CAS failed spuriously; try again.
                Err(current) => pop_count_and_head = current,
            }
        }
    }

    /// Capacity of the queue.
    #[inline]
    fn capacity(&self) -> UnsignedShort {
        self.mask.wrapping_add(1)
    }
}

impl<T> Drop for Queue<T> {
    fn drop(&mut self) {
        let head = self.head.load(Relaxed);
        let push_count = self.push_count.load(Relaxed);
        let pop_count = unpack(self.pop_count_and_head.load(Relaxed)).0;
        let tail = push_count.wrapping_sub(pop_count);

        let count = tail.wrapping_sub(head);
        for offset in 0..count {
            drop(unsafe { self.read_at(head.wrapping_add(offset)) });
        }
    }
}

/// Handle for single-threaded LIFO push and pop operations.
#[derive(Debug)]
pub struct Worker<T> {
    queue: Arc<Queue<T>>,
}

impl<T> Worker<T> {
    /// Creates a new queue and returns a `Worker` handle.
    ///
    /// **The capacity of a queue is always a power of two**. It is set to the
    /// smallest power of two greater than or equal to the requested minimum
    /// capacity.
    ///
    /// # Panic
    ///
    /// This method will panic if the minimum requested capacity is greater than
    /// 2³¹ on targets that support 64-bit atomics, or greater than 2¹⁵ on
    /// targets that only support 32-bit atomics.
    pub fn new(min_capacity: usize) -> Self {
        const MAX_CAPACITY: usize = 1 << (UnsignedShort::BITS - 1);

        assert!(
            min_capacity <= MAX_CAPACITY,
            "the capacity of the queue cannot exceed {}",
            MAX_CAPACITY
        );

        // `next_power_of_two` cannot overflow since `min_capacity` cannot be
        // greater than `MAX_CAPACITY`, and the latter is a power of two that
        // always fits within an `UnsignedShort`.
        let capacity = min_capacity.next_power_of_two();
        let buffer = allocate_buffer(capacity);
        let mask = capacity as UnsignedShort - 1;

        let queue = Arc::new(Queue {
            push_count: CachePadded::new(AtomicUnsignedShort::new(0)),
            pop_count_and_head: CachePadded::new(AtomicUnsignedLong::new(0)),
            head: CachePadded::new(AtomicUnsignedShort::new(0)),
            buffer,
            mask,
        });

        Worker { queue }
    }

    /// Creates a new `Stealer` handle associated to this `Worker`.
    ///
    /// An arbitrary number of `Stealer` handles can be created, either using
    /// this method or cloning an existing `Stealer` handle.
    pub fn stealer(&self) -> Stealer<T> {
        Stealer {
            queue: self.queue.clone(),
        }
    }

    /// Creates a reference to a `Stealer` handle associated to this `Worker`.
    ///
    /// This is a zero-cost reference-to-reference conversion: the reference
    /// count to the underlying queue is not modified. The returned reference
    /// can in particular be used to perform a cheap equality check with another
    /// `Stealer` and verify that it is associated to the same `Worker`.
    pub fn stealer_ref(&self) -> &Stealer<T> {
        // Sanity checks to assess that `queue` has indeed the size and
        // alignment of a `Stealer` (this assert is optimized in release mode).
        assert_eq!(Layout::for_value(&self.queue), Layout::new::<Stealer<T>>());

        // Safety: `self.queue` has the size and alignment of `Stealer` since
        // the latter is a `repr(transparent)` type over an `Arc<Queue<T>>`. The
        // lifetime of the returned reference is bounded by the lifetime of
        // `&self`. The soundness of providing a `Stealer` from a `Worker` is
        // already assumed by the `stealer()` method, so providing a short-lived
        // reference to a `Stealer` does not in itself modify safety guarantees.
        unsafe { transmute::<&'_ Arc<Queue<T>>, &'_ Stealer<T>>(&self.queue) }
    }

    /// Returns the capacity of the queue.
    pub fn capacity(&self) -> usize {
        self.queue.capacity() as usize
    }

    /// Returns the number of items that can be successfully pushed onto the
    /// queue.
    ///
    /// Note that that the spare capacity may be underestimated due to
    /// concurrent stealing operations.
    pub fn spare_capacity(&self) -> usize {
        let push_count = self.queue.push_count.load(Relaxed);
        let pop_count = unpack(self.queue.pop_count_and_head.load(Relaxed)).0;
        let tail = push_count.wrapping_sub(pop_count);

        // Ordering: Relaxed ordering is sufficient since no element will be
        // read or written.
        let head = self.queue.head.load(Relaxed);

        // Aggregate count of available items (those which can be popped) and of
        // items currently being stolen. Note that even if the value of `head`
        // is stale, `len` can never exceed the maximum capacity because it is
        // computed on the same thread that pushes items, but `push` would fail
        // if `head` suggested that there is no spare capacity.
        let len = tail.wrapping_sub(head);

        (self.queue.capacity() - len) as usize
    }

    /// Returns true if the queue is empty.
    ///
    /// Note that the queue size is somewhat ill-defined in a multi-threaded
    /// context, but it is warranted that if `is_empty()` returns true, a
    /// subsequent call to `pop()` will fail.
    pub fn is_empty(&self) -> bool {
        let push_count = self.queue.push_count.load(Relaxed);
        let (pop_count, head) = unpack(self.queue.pop_count_and_head.load(Relaxed));
        let tail = push_count.wrapping_sub(pop_count);

        tail == head
    }

    /// Attempts to push one item at the tail of the queue.
    ///
    /// # Errors
    ///
    /// This will fail if the queue is full, in which case the item is returned
    /// as the error field.
    pub fn push(&self, item: T) -> Result<(), T> {
        let push_count = self.queue.push_count.load(Relaxed);
        let pop_count = unpack(self.queue.pop_count_and_head.load(Relaxed)).0;
        let tail = push_count.wrapping_sub(pop_count);

        // Ordering: Acquire ordering is required to synchronize with the
        // Release of the `head` atomic at the end of a stealing operation and
        // ensure that the stealer has finished copying the items from the
        // buffer.
        let head = self.queue.head.load(Acquire);

        // Check that the buffer is not full.
        if tail.wrapping_sub(head) > self.queue.mask {
            return Err(item);
        }

        // Store the item.
        unsafe { self.queue.write_at(tail, item) };

        // Make the item visible by incrementing the push count.
        //
        // Ordering: the Release ordering ensures that the subsequent
        // acquisition of this atomic by a stealer will make the previous write
        // visible.
        self.queue
            .push_count
            .store(push_count.wrapping_add(1), Release);

        Ok(())
    }

    /// Attempts to push the content of an iterator at the tail of the queue.
    ///
    /// It is the responsibility of the caller to ensure that there is enough
    /// spare capacity to accommodate all iterator items, for instance by
    /// calling [`spare_capacity`](Worker::spare_capacity) beforehand.
    /// Otherwise, the iterator is dropped while still holding the excess items.
    pub fn extend<I: IntoIterator<Item = T>>(&self, iter: I) {
        let push_count = self.queue.push_count.load(Relaxed);
        let pop_count = unpack(self.queue.pop_count_and_head.load(Relaxed)).0;
        let mut tail = push_count.wrapping_sub(pop_count);

        // Ordering: Acquire ordering is required to synchronize with the
        // Release of the `head` atomic at the end of a stealing operation and
        // ensure that the stealer has finished copying the items from the
        // buffer.
        let head = self.queue.head.load(Acquire);

        let max_tail = head.wrapping_add(self.queue.capacity());
        for item in iter {
            // Check whether the buffer is full.
            if tail == max_tail {
                break;
            }
            // Store the item.
            unsafe { self.queue.write_at(tail, item) };
            tail = tail.wrapping_add(1);
        }

        // Make the items visible by incrementing the push count.
        //
        // Ordering: the Release ordering ensures that the subsequent
        // acquisition of this atomic by a stealer will make the previous write
        // visible.
        self.queue
            .push_count
            .store(tail.wrapping_add(pop_count), Release);
    }

    /// Attempts to pop one item from the tail of the queue.
    ///
    /// This returns None if the queue is empty.
    pub fn pop(&self) -> Option<T> {
        // Acquire the item to be popped.
        //
        // Ordering: Relaxed ordering is sufficient since (i) the push and pop
        // count are only set by this thread and (ii) no stealer will read this
        // slot until it has been again written to with a push operation. In the
        // worse case, the head position read below will be obsolete and the
        // first CAS will fail.
        let mut pop_count_and_head = self.queue.pop_count_and_head.load(Relaxed);
        let push_count = self.queue.push_count.load(Relaxed);

        let (pop_count, mut head) = unpack(pop_count_and_head);
        let tail = push_count.wrapping_sub(pop_count);
        let new_pop_count = pop_count.wrapping_add(1);

        loop {
            // Check if the queue is empty.
            if tail == head {
                return None;
            }
            let new_pop_count_and_head = pack(new_pop_count, head);

            // Attempt to claim this slot.
            //
            // Ordering: Release is necessary so that stealers can acquire the
            // pop count and be sure that all previous push operations have been
            // accounted for, otherwise the calculated tail could end up less
            // than the head.
            match self.queue.pop_count_and_head.compare_exchange_weak(
                pop_count_and_head,
                new_pop_count_and_head,
                Release,
                Relaxed,
            ) {
                Ok(_) => break,
                // We lost the race to a stealer or the CAS failed spuriously; try again.
                Err(current) => {
                    pop_count_and_head = current;
                    head = unpack(current).1;
                }
            }
        }

        // Read the item.
        unsafe { Some(self.queue.read_at(tail.wrapping_sub(1))) }
    }

    /// Returns an iterator that steals items from the head of the queue.
    ///
    /// The returned iterator steals up to `N` items, where `N` is specified by
    /// a closure which takes as argument the total count of items available for
    /// stealing. Upon success, the number of items ultimately stolen can be
    /// from 1 to `N`, depending on the number of available items.
    ///
    /// # Beware
    ///
    /// All items stolen by the iterator should be moved out as soon as
    /// possible, because until then or until the iterator is dropped, all
    /// concurrent stealing operations will fail with [`StealError::Busy`].
    ///
    /// # Leaking
    ///
    /// If the iterator is leaked before all stolen items have been moved out,
    /// subsequent stealing operations will permanently fail with
    /// [`StealError::Busy`].
    ///
    /// # Errors
    ///
    /// An error is returned in the following cases:
    /// 1) no item was stolen, either because the queue is empty or `N` is 0,
    /// 2) a concurrent stealing operation is ongoing.
    pub fn drain<C>(&self, count_fn: C) -> Result<Drain<'_, T>, StealError>
    where
        C: FnMut(usize) -> usize,
    {
        let (old_head, new_head, _) = self.queue.book_items(count_fn, UnsignedShort::MAX)?;

        Ok(Drain {
            queue: &self.queue,
            current: old_head,
            end: new_head,
        })
    }
}

impl<T> UnwindSafe for Worker<T> {}
impl<T> RefUnwindSafe for Worker<T> {}
unsafe impl<T: Send> Send for Worker<T> {}

/// A draining iterator for [`Worker<T>`].
///
/// This iterator is created by [`Worker::drain`]. See its documentation for
/// more information.
#[derive(Debug)]
pub struct Drain<'a, T> {
    queue: &'a Queue<T>,
    current: UnsignedShort,
    end: UnsignedShort,
}

impl<'a, T> Iterator for Drain<'a, T> {
    type Item = T;

    fn next(&mut self) -> Option<T> {
        if self.current == self.end {
            return None;
        }

        let item = Some(unsafe { self.queue.read_at(self.current) });

        self.current = self.current.wrapping_add(1);

        // We cannot rely on the caller to call `next` again after the last item
        // is yielded so the head position must be updated immediately when
        // yielding the last item.
        if self.current == self.end {
            // Update the head position.
            //
            // Ordering: the Release ordering ensures that all items have been moved
            // out when a subsequent push operation synchronizes by acquiring
            // `head`. It also ensures that the push count seen by a subsequent
            // steal operation (which acquires `head`) is at least equal to the one
            // seen by the present steal operation.
            self.queue.head.store(self.end, Release);
        }

        item
    }

    fn size_hint(&self) -> (usize, Option<usize>) {
        let sz = self.end.wrapping_sub(self.current) as usize;

        (sz, Some(sz))
    }
}

impl<'a, T> ExactSizeIterator for Drain<'a, T> {}

impl<'a, T> FusedIterator for Drain<'a, T> {}

impl<'a, T> Drop for Drain<'a, T> {
    fn drop(&mut self) {
        // Drop all items and make sure the head is updated so that subsequent
        // stealing operations can succeed.
        for _item in self {}
    }
}

impl<'a, T> UnwindSafe for Drain<'a, T> {}
impl<'a, T> RefUnwindSafe for Drain<'a, T> {}
unsafe impl<'a, T: Send> Send for Drain<'a, T> {}
unsafe impl<'a, T: Send> Sync for Drain<'a, T> {}

/// Handle for multi-threaded stealing operations.
#[derive(Debug)]
#[repr(transparent)]
pub struct Stealer<T> {
    queue: Arc<Queue<T>>,
}

impl<T> Stealer<T> {
    /// Attempts to steal items from the head of the queue and move them to the
    /// tail of another queue.
    ///
    /// Up to `N` items are moved to the destination queue, where `N` is
    /// specified by a closure which takes as argument the total count of items
    /// available for stealing. Upon success, the number of items ultimately
    /// transferred to the destination queue can be from 1 to `N`, depending on
    /// the number of available items and the capacity of the destination queue;
    /// the count of transferred items is returned as the success payload.
    ///
    /// # Errors
    ///
    /// An error is returned in the following cases:
    /// 1) no item was stolen, either because the queue is empty, the
    ///    destination is full or `N` is 0,
    /// 2) a concurrent stealing operation is ongoing.
    pub fn steal<C>(&self, dest: &Worker<T>, count_fn: C) -> Result<usize, StealError>
    where
        C: FnMut(usize) -> usize,
    {
        // Compute the free capacity of the destination queue.
        //
        // Note that even if the value of `dest_head` is stale, the subtraction
        // that computes `dest_free_capacity` can never overflow since it is
        // computed on the same thread that pushes items to the destination
        // queue, but `push` would fail if `dest_head` suggested that there is
        // no spare capacity.
        //
        // Ordering: see `Worker::push()` method.
        let dest_push_count = dest.queue.push_count.load(Relaxed);
        let dest_pop_count = unpack(dest.queue.pop_count_and_head.load(Relaxed)).0;
        let dest_tail = dest_push_count.wrapping_sub(dest_pop_count);
        let dest_head = dest.queue.head.load(Acquire);
        let dest_free_capacity = dest.queue.capacity() - dest_tail.wrapping_sub(dest_head);

        debug_or_loom_assert!(dest_free_capacity <= dest.queue.capacity());

        let (old_head, new_head, transfer_count) =
            self.queue.book_items(count_fn, dest_free_capacity)?;

        debug_or_loom_assert!(transfer_count <= dest_free_capacity);

        // Move all items but the last to the destination queue.
        for offset in 0..transfer_count {
            unsafe {
                let item = self.queue.read_at(old_head.wrapping_add(offset));
                dest.queue.write_at(dest_tail.wrapping_add(offset), item);
            }
        }

        // Make the moved items visible by updating the destination tail position.
        //
        // Ordering: see comments in the `push()` method.
        dest.queue
            .push_count
            .store(dest_push_count.wrapping_add(transfer_count), Release);

        // Update the head position.
        //
        // Ordering: the Release ordering ensures that all items have been moved
        // out when a subsequent push operation synchronizes by acquiring
        // `head`. It also ensures that the push count seen by a subsequent
        // steal operation (which acquires `head`) is at least equal to the one
        // seen by the present steal operation.
        self.queue.head.store(new_head, Release);

        Ok(transfer_count as usize)
    }

    /// Attempts to steal items from the head of the queue, returning one of
    /// them directly and moving the others to the tail of another queue.
    ///
    /// Up to `N` items are stolen (including the one returned directly), where
    /// `N` is specified by a closure which takes as argument the total count of
    /// items available for stealing. Upon success, one item is returned and
    /// from 0 to `N-1` items are moved to the destination queue, depending on
    /// the number of available items and the capacity of the destination queue;
    /// the number of transferred items is returned as the second field of the
    /// success value.
    ///
    /// The returned item is the most recent one among the stolen items.
    ///
    /// # Errors
    ///
    /// An error is returned in the following cases:
    /// 1) no item was stolen, either because the queue is empty or `N` is 0,
    /// 2) a concurrent stealing operation is ongoing.
    ///
    /// Failure to transfer any item to the destination queue is not considered
    /// an error as long as one element could be returned directly. This can
    /// occur if the destination queue is full, if the source queue has only one
    /// item or if `N` is 1.
    pub fn steal_and_pop<C>(&self, dest: &Worker<T>, count_fn: C) -> Result<(T, usize), StealError>
    where
        C: FnMut(usize) -> usize,
    {
        // Compute the free capacity of the destination queue.
        //
        // Ordering: see `Worker::push()` method.
        let dest_push_count = dest.queue.push_count.load(Relaxed);
        let dest_pop_count = unpack(dest.queue.pop_count_and_head.load(Relaxed)).0;
        let dest_tail = dest_push_count.wrapping_sub(dest_pop_count);
        let dest_head = dest.queue.head.load(Acquire);
        let dest_free_capacity = dest.queue.capacity() - dest_tail.wrapping_sub(dest_head);

        debug_or_loom_assert!(dest_free_capacity <= dest.queue.capacity());

        let (old_head, new_head, count) =
            self.queue.book_items(count_fn, dest_free_capacity + 1)?;
        let transfer_count = count - 1;

        debug_or_loom_assert!(transfer_count <= dest_free_capacity);

        // Move all items but the last to the destination queue.
        for offset in 0..transfer_count {
            unsafe {
                let item = self.queue.read_at(old_head.wrapping_add(offset));
                dest.queue.write_at(dest_tail.wrapping_add(offset), item);
            }
        }

        // Read the last item.
        let last_item = unsafe { self.queue.read_at(old_head.wrapping_add(transfer_count)) };

        // Make the moved items visible by updating the destination tail position.
        //
        // Ordering: see comments in the `push()` method.
        dest.queue
            .push_count
            .store(dest_push_count.wrapping_add(transfer_count), Release);

        // Update the head position.
        //
        // Ordering: the Release ordering ensures that all items have been moved
        // out when a subsequent push operation synchronizes by acquiring
        // `head`. It also ensures that the push count seen by a subsequent
        // steal operation (which acquires `head`) is at least equal to the one
        // seen by the present steal operation.
        self.queue.head.store(new_head, Release);

        Ok((last_item, transfer_count as usize))
    }
}

impl<T> Clone for Stealer<T> {
    fn clone(&self) -> Self {
        Stealer {
            queue: self.queue.clone(),
        }
    }
}

impl<T> PartialEq for Stealer<T> {
    fn eq(&self, other: &Self) -> bool {
        Arc::ptr_eq(&self.queue, &other.queue)
    }
}

impl<T> Eq for Stealer<T> {}

impl<T> UnwindSafe for Stealer<T> {}
impl<T> RefUnwindSafe for Stealer<T> {}
unsafe impl<T: Send> Send for Stealer<T> {}
unsafe impl<T: Send> Sync for Stealer<T> {}
