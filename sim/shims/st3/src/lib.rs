//! # St³ — Stealing Static Stack
//!
//! Very fast lock-free, bounded, work-stealing queue with FIFO stealing and
//! LIFO or FIFO semantic for the worker thread.
//!
//! The `Worker` handle enables push and pop operations from a single thread,
//! while `Stealer` handles can be shared between threads to perform FIFO
//! batch-stealing operations.
//!
//! `St³` is effectively a faster, fixed-size alternative to the Chase-Lev
//! double-ended queue. It uses no atomic fences, much fewer atomic loads and
//! stores, and fewer Read-Modify-Write operations: none for `push`, one for
//! `pop` and one (LIFO) or two (FIFO) for `steal`.
//!
//! ## Example
//!
//! ```
//! use std::thread;
//! use st3::lifo::Worker;
//!
//! // Push 4 items into a queue of capacity 256.
//! let worker = Worker::new(256);
//! worker.push("a").unwrap();
//! worker.push("b").unwrap();
//! worker.push("c").unwrap();
//! worker.push("d").unwrap();
//!
//! // Steal items concurrently.
//! let stealer = worker.stealer();
//! let th = thread::spawn(move || {
//!     let other_worker = Worker::new(256);
//!
//!     // Try to steal half the items and return the actual count of stolen items.
//!     match stealer.steal(&other_worker, |n| n/2) {
//!         Ok(actual) => actual,
//!         Err(_) => 0,
//!     }
//! });
//!
//! // Pop items concurrently.
//! let mut pop_count = 0;
//! while worker.pop().is_some() {
//!     pop_count += 1;
//! }
//!
//! // Does it add up?
//! let steal_count = th.join().unwrap();
//! assert_eq!(pop_count + steal_count, 4);
//! ```
#![warn(missing_docs, missing_debug_implementations, unreachable_pub)]
#![no_std]

extern crate alloc;

use alloc::boxed::Box;
use alloc::vec::Vec;

use core::fmt;
use core::mem::MaybeUninit;

use config::{UnsignedLong, UnsignedShort};

use crate::loom_exports::cell::UnsafeCell;

mod config;
pub mod fifo;
pub mod lifo;
mod loom_exports;

/// Error returned when stealing is unsuccessful.
#[derive(Debug, Clone, PartialEq, Eq)]
pub enum StealError {
    /// No item was stolen.
    Empty,
    /// Another concurrent stealing operation is ongoing.
    Busy,
}

impl fmt::Display for StealError {
    fn fmt(&self, f: &mut fmt::Formatter) -> fmt::Result {
        match self {
            StealError::Empty => write!(f, "cannot steal from empty queue"),
            StealError::Busy => write!(f, "a concurrent steal operation is ongoing"),
        }
    }
}

#[inline]
/// Pack two short integers into a long one.
fn pack(value1: UnsignedShort, value2: UnsignedShort) -> UnsignedLong {
    ((value1 as UnsignedLong) << UnsignedShort::BITS) | value2 as UnsignedLong
}
#[inline]
/// Unpack a long integer into 2 short ones.
fn unpack(value: UnsignedLong) -> (UnsignedShort, UnsignedShort) {
    (
        (value >> UnsignedShort::BITS) as UnsignedShort,
        value as UnsignedShort,
    )
}

fn allocate_buffer<T>(len: usize) -> Box<[UnsafeCell<MaybeUninit<T>>]> {
    let mut buffer = Vec::with_capacity(len);

    // Note: resizing the vector would normally be an O(N) operation due to
    // initialization, but initialization is optimized out in release mode since
    // an `UnsafeCell<MaybeUninit>` does not actually need to be initialized as
    // `UnsafeCell` is `repr(transparent)`.
    buffer.resize_with(len, || UnsafeCell::new(MaybeUninit::uninit()));

    buffer.into_boxed_slice()
}
