//! # FIFO, bounded, work-stealing queue.
//!
//! ## Example
//!
//! ```
//! use std::thread;
//! use st3::fifo::Worker;
//!
//! // Push 4 items into a FIFO queue of capacity 256.
//! let worker = Worker::new(256);
//! worker.push("a").unwrap();
//! worker.push("b").unwrap();
//! worker.push("c").unwrap();
//! worker.push("d").unwrap();
//!
//! // Steal items concurrently.
//! let stealer = worker.stealer();
//! let th = thread::spawn(move || {
//!     let other_worker = Worker::new(256);
//!
//!     // Try to steal half the items and return the actual count of stolen items.
//!     match stealer.steal(&other_worker, |n| n/2) {
//!         Ok(actual) => actual,
//!         Err(_) => 0,
//!     }
//! });
//!
//! // Pop items concurrently.
//! let mut pop_count = 0;
//! while worker.pop().is_some() {
//!     pop_count += 1;
//! }
//!
//! // Does it add up?
//! let steal_count = th.join().unwrap();
//! assert_eq!(pop_count + steal_count, 4);
//! ```
use alloc::boxed::Box;
use alloc::sync::Arc;

use core::alloc::Layout;
use core::iter::FusedIterator;
use core::mem::{drop, transmute, MaybeUninit};
use core::panic::{RefUnwindSafe, UnwindSafe};
use core::sync::atomic::Ordering::{AcqRel, Acquire, Relaxed, Release};

use crossbeam_utils::CachePadded;

use crate::config::{AtomicUnsignedLong, AtomicUnsignedShort, UnsignedShort};
use crate::loom_exports::cell::UnsafeCell;
use crate::loom_exports::{debug_or_loom_assert, debug_or_loom_assert_eq};
use crate::{allocate_buffer, pack, unpack, StealError};

/// A double-ended FIFO work-stealing queue.
///
/// The general operation of the queue is based on tokio's worker queue, itself
/// based on the Go scheduler's worker queue.
///
/// The queue tracks its tail and head position within a ring buffer with
/// wrap-around integers, where the least significant bits specify the actual
/// buffer index. All positions have bit widths that are intentionally larger
/// than necessary for buffer indexing because:
/// - an extra bit is needed to disambiguate between empty and full buffers when
///   the start and end position of the buffer are equal,
/// - the worker head is also used as long-cycle counter to mitigate the risk of
///   ABA.
///
#[derive(Debug)]
struct Queue<T> {
    /// Positions of the head as seen by the worker (most significant bits) and
    /// as seen by a stealer (least significant bits).
    heads: CachePadded<AtomicUnsignedLong>,

    /// Position of the tail.
    tail: CachePadded<AtomicUnsignedShort>,

    /// Queue items.
    buffer: Box<[UnsafeCell<MaybeUninit<T>>]>,

    /// Mask for the buffer index.
    mask: UnsignedShort,
}

impl<T> Queue<T> {
    /// Read an item at the given position.
    ///
    /// The position is automatically mapped to a valid buffer index using a
    /// modulo operation.
    ///
    /// # Safety
    ///
    /// The item at the given position must have been initialized before and
    /// cannot have been moved out.
    ///
    /// The caller must guarantee that the item at this position cannot be
    /// written to or moved out concurrently.
    #[inline]
    unsafe fn read_at(&self, position: UnsignedShort) -> T {
        let index = (position & self.mask) as usize;
        (*self.buffer).as_ref()[index].with(|slot| slot.read().assume_init())
    }

    /// Write an item at the given position.
    ///
    /// The position is automatically mapped to a valid buffer index using a
    /// modulo operation.
    ///
    /// # Note
    ///
    /// If an item is already initialized but was not moved out yet, it will be
    /// leaked.
    ///
    /// # Safety
    ///
    /// The caller must guarantee that the item at this position cannot be read
    /// or written to concurrently.
    #[inline]
    unsafe fn write_at(&self, position: UnsignedShort, item: T) {
        let index = (position & self.mask) as usize;
        (*self.buffer).as_ref()[index].with_mut(|slot| slot.write(MaybeUninit::new(item)));
    }

    /// Attempt to book `N` items for stealing where `N` is specified by a
    /// closure which takes as argument the total count of available items.
    ///
    /// In case of success, the returned tuple contains the stealer head and an
    /// item count at least equal to 1, in this order.
    ///
    /// # Errors
    ///
    /// An error is returned in the following cases:
    /// 1) no item could be stolen, either because the queue is empty or because
    ///    `N` is 0,
    /// 2) a concurrent stealing operation is ongoing.
    ///
    /// # Safety
    ///
    /// This function is not strictly unsafe, but because it initiates the
    /// stealing operation by modifying the worker head without ever updating
    /// the stealer head, its misuse can result in permanently blocking
    /// subsequent stealing operations.
    fn book_items<C>(
        &self,
        mut count_fn: C,
        max_count: UnsignedShort,
    ) -> Result<(UnsignedShort, UnsignedShort), StealError>
    where
        C: FnMut(usize) -> usize,
    {
        let mut heads = self.heads.load(Acquire);

        loop {
            let (worker_head, stealer_head) = unpack(heads);

            // Bail out if both heads differ because it means another stealing
            // operation is concurrently ongoing.
            if stealer_head != worker_head {
                return Err(StealError::Busy);
            }

            let tail = self.tail.load(Acquire);
            let item_count = tail.wrapping_sub(worker_head);

            // `item_count` is tested now because `count_fn` may expect
            // `item_count>0`.
            if item_count == 0 {
                return Err(StealError::Empty);
            }

            // Unwind safety: it is OK if `count_fn` panics because no state has
            // been modified yet.
            let count = (count_fn(item_count as usize).min(max_count as usize) as UnsignedShort)
                .min(item_count);

            // The special case `count_fn() == 0` must be tested specifically,
            // because if the compare-exchange succeeds with `count=0`, the new
            // worker head will be the same as the old one so other stealers
            // will not detect that stealing is currently ongoing and may try to
            // actually steal items and concurrently modify the position of the
            // heads.
            if count == 0 {
                return Err(StealError::Empty);
            }

            // Move the worker head only.
            let new_heads = pack(worker_head.wrapping_add(count), stealer_head);

            // Attempt to book the slots. Only one stealer can succeed since
            // once this atomic is changed, the other thread will necessarily
            // observe a mismatch between the two heads.
            match self
                .heads
                .compare_exchange_weak(heads, new_heads, Acquire, Acquire)
            {
                Ok(_) => return Ok((stealer_head, count)),
                // We lost the race to a concurrent pop or steal operation, or
                // the CAS failed spuriously; try again.
                Err(h) => heads = h,
            }
        }
    }

    /// Capacity of the queue.
    #[inline]
    fn capacity(&self) -> UnsignedShort {
        self.mask.wrapping_add(1)
    }
}

impl<T> Drop for Queue<T> {
    fn drop(&mut self) {
        let worker_head = unpack(self.heads.load(Relaxed)).0;
        let tail = self.tail.load(Relaxed);

        let count = tail.wrapping_sub(worker_head);
        for offset in 0..count {
            drop(unsafe { self.read_at(worker_head.wrapping_add(offset)) })
        }
    }
}

/// Handle for single-threaded FIFO push and pop operations.
#[derive(Debug)]
pub struct Worker<T> {
    queue: Arc<Queue<T>>,
}

impl<T> Worker<T> {
    /// Creates a new queue and returns a `Worker` handle.
    ///
    /// **The capacity of a queue is always a power of two**. It is set to the
    /// smallest power of two greater than or equal to the requested minimum
    /// capacity.
    ///
    /// # Panic
    ///
    /// This method will panic if the minimum requested capacity is greater than
    /// 2³¹ on targets that support 64-bit atomics, or greater than 2¹⁵ on
    /// targets that only support 32-bit atomics.
    pub fn new(min_capacity: usize) -> Self {
        const MAX_CAPACITY: usize = 1 << (UnsignedShort::BITS - 1);

        assert!(
            min_capacity <= MAX_CAPACITY,
            "the capacity of the queue cannot exceed {}",
            MAX_CAPACITY
        );

        // `next_power_of_two` cannot overflow since `min_capacity` cannot be
        // greater than `MAX_CAPACITY`, and the latter is a power of two that
        // always fits within an `UnsignedShort`.
        let capacity = min_capacity.next_power_of_two();
        let buffer = allocate_buffer(capacity);
        let mask = capacity as UnsignedShort - 1;

        let queue = Arc::new(Queue {
            heads: CachePadded::new(AtomicUnsignedLong::new(0)),
            tail: CachePadded::new(AtomicUnsignedShort::new(0)),
            buffer,
            mask,
        });

        vstd::sim::aux("worker.new", Arc::as_ptr(&queue) as *const () as usize, 0, capacity); // vsim hook
        Worker { queue }
    }

    /// Creates a new `Stealer` handle associated to this `Worker`.
    ///
    /// An arbitrary number of `Stealer` handles can be created, either using
    /// this method or cloning an existing `Stealer` handle.
    pub fn stealer(&self) -> Stealer<T> {
        Stealer {
            queue: self.queue.clone(),
        }
    }

    /// Creates a reference to a `Stealer` handle associated to this `Worker`.
    ///
    /// This is a zero-cost reference-to-reference conversion: the reference
    /// count to the underlying queue is not modified. The returned reference
    /// can in particular be used to perform a cheap equality check with another
    /// `Stealer` and verify that it is associated to the same `Worker`.
    pub fn stealer_ref(&self) -> &Stealer<T> {
        // Sanity checks to assess that `queue` has indeed the size and
        // alignment of a `Stealer` (this assert is optimized in release mode).
        assert_eq!(Layout::for_value(&self.queue), Layout::new::<Stealer<T>>());

        // Safety: `self.queue` has the size and alignment of `Stealer` since
        // the latter is a `repr(transparent)` type over an `Arc<Queue<T>>`. The
        // lifetime of the returned reference is bounded by the lifetime of
        // `&self`. The soundness of providing a `Stealer` from a `Worker` is
        // already assumed by the `stealer()` method, so providing a short-lived
        // reference to a `Stealer` does not in itself modify safety guarantees.
        unsafe { transmute::<&'_ Arc<Queue<T>>, &'_ Stealer<T>>(&self.queue) }
    }

    /// Returns the capacity of the queue.
    pub fn capacity(&self) -> usize {
        self.queue.capacity() as usize
    }

    /// Returns the number of items that can be successfully pushed onto the
    /// queue.
    ///
    /// Note that that the spare capacity may be underestimated due to
    /// concurrent stealing operations.
    pub fn spare_capacity(&self) -> usize {
        let stealer_head = unpack(self.queue.heads.load(Relaxed)).1;
        let tail = self.queue.tail.load(Relaxed);

        // Aggregate count of available items (those which can be popped) and of
        // items currently being stolen.
        let len = tail.wrapping_sub(stealer_head);

        (self.queue.capacity() - len) as usize
    }

    /// Returns true if the queue is empty.
    ///
    /// Note that the queue size is somewhat ill-defined in a multi-threaded
    /// context, but it is warranted that if `is_empty()` returns true, a
    /// subsequent call to `pop()` will fail.
    pub fn is_empty(&self) -> bool {
        let worker_head = unpack(self.queue.heads.load(Relaxed)).0;
        let tail = self.queue.tail.load(Relaxed);

        tail == worker_head
    }

    /// Attempts to push one item at the tail of the queue.
    ///
    /// # Errors
    ///
    /// This will fail if the queue is full, in which case the item is returned
    /// as the error field.
    pub fn push(&self, item: T) -> Result<(), T> {
        let _vsim_guard = vstd::sim::OverlapGuard::enter(Arc::as_ptr(&self.queue) as *const () as usize, "cause.st3.overlapping-push"); // vsim hook
        let stealer_head = unpack(self.queue.heads.load(Acquire)).1;
        let tail = self.queue.tail.load(Relaxed);

        // Check that the buffer is not full.
        if tail.wrapping_sub(stealer_head) > self.queue.mask {
            return Err(item);
        }

        // Store the item.
        unsafe { self.queue.write_at(tail, item) };

        // Make the item visible by moving the tail.
        //
        // Ordering: the Release ordering ensures that the subsequent
        // acquisition of this atomic by a stealer will make the previous write
        // visible.
        self.queue.tail.store(tail.wrapping_add(1), Release);
        vstd::sim::aux("worker.push", Arc::as_ptr(&self.queue) as *const () as usize, 0, 1); // vsim hook

        Ok(())
    }

    /// Attempts to push the content of an iterator at the tail of the queue.
    ///
    /// It is the responsibility of the caller to ensure that there is enough
    /// spare capacity to accommodate all iterator items, for instance by
    /// calling [`spare_capacity`](Worker::spare_capacity) beforehand.
    /// Otherwise, the iterator is dropped while still holding the items in
    /// excess.
    pub fn extend<I: IntoIterator<Item = T>>(&self, iter: I) {
        let stealer_head = unpack(self.queue.heads.load(Acquire)).1;
        let mut tail = self.queue.tail.load(Relaxed);

        let max_tail = stealer_head.wrapping_add(self.queue.capacity());
        for item in iter {
            // Check whether the buffer is full.
            if tail == max_tail {
                break;
            }
            // Store the item.
            unsafe { self.queue.write_at(tail, item) };
            tail = tail.wrapping_add(1);
        }

        // Make the items visible by incrementing the push count.
        //
        // Ordering: the Release ordering ensures that the subsequent
        // acquisition of this atomic by a stealer will make the previous write
        // visible.
        self.queue.tail.store(tail, Release);
    }

    /// Attempts to pop one item from the head of the queue.
    ///
    /// This returns None if the queue is empty.
    pub fn pop(&self) -> Option<T> {
        let mut heads = self.queue.heads.load(Acquire);

        let prev_worker_head = loop {
            let (worker_head, stealer_head) = unpack(heads);
            let tail = self.queue.tail.load(Relaxed);

            // Check if the queue is empty.
            if tail == worker_head {
                return None;
            }

            // Move the worker head. The weird cast from `bool` to
            // `UnsignedShort` is to steer the compiler towards branchless code.
            let next_heads = pack(
                worker_head.wrapping_add(1),
                stealer_head.wrapping_add((stealer_head == worker_head) as UnsignedShort),
            );

            // Attempt to book the items.
            let res = self
                .queue
                .heads
                .compare_exchange_weak(heads, next_heads, AcqRel, Acquire);

            match res {
                Ok(_) => break worker_head,
                // We lost the race to a stealer or the CAS failed spuriously; try again.
                Err(h) => heads = h,
            }
        };

        vstd::sim::aux("worker.pop", Arc::as_ptr(&self.queue) as *const () as usize, 0, 1); // vsim hook
        unsafe { Some(self.queue.read_at(prev_worker_head)) }
    }

    /// Returns an iterator that steals items from the head of the queue.
    ///
    /// The returned iterator steals up to `N` items, where `N` is specified by
    /// a closure which takes as argument the total count of items available for
    /// stealing. Upon success, the number of items ultimately stolen can be
    /// from 1 to `N`, depending on the number of available items.
    ///
    /// # Beware
    ///
    /// All items stolen by the iterator should be moved out as soon as
    /// possible, because until then or until the iterator is dropped, all
    /// concurrent stealing operations will fail with [`StealError::Busy`].
    ///
    /// # Leaking
    ///
    /// If the iterator is leaked before all stolen items have been moved out,
    /// subsequent stealing operations will permanently fail with
    /// [`StealError::Busy`].
    ///
    /// # Errors
    ///
    /// An error is returned in the following cases:
    /// 1) no item was stolen, either because the queue is empty or `N` is 0,
    /// 2) a concurrent stealing operation is ongoing.
    pub fn drain<C>(&self, count_fn: C) -> Result<Drain<'_, T>, StealError>
    where
        C: FnMut(usize) -> usize,
    {
        let (head, count) = self.queue.book_items(count_fn, UnsignedShort::MAX)?;

        Ok(Drain {
            queue: &self.queue,
            head,
            from_head: head,
            to_head: head.wrapping_add(count),
        })
    }
}

impl<T> UnwindSafe for Worker<T> {}
impl<T> RefUnwindSafe for Worker<T> {}
unsafe impl<T: Send> Send for Worker<T> {}

/// A draining iterator for [`Worker<T>`].
///
/// This iterator is created by [`Worker::drain`]. See its documentation for
/// more.
#[derive(Debug)]
pub struct Drain<'a, T> {
    queue: &'a Queue<T>,
    head: UnsignedShort,
    from_head: UnsignedShort,
    to_head: UnsignedShort,
}

impl<'a, T> Iterator for Drain<'a, T> {
    type Item = T;

    fn next(&mut self) -> Option<T> {
        if self.head == self.to_head {
            return None;
        }

        let item = Some(unsafe { self.queue.read_at(self.head) });

        self.head = self.head.wrapping_add(1);

        // We cannot rely on the caller to call `next` again after the last item
        // is yielded so the heads must be updated immediately when yielding the
        // last item.
        if self.head == self.to_head {
            // Signal that the stealing operation has completed.
            let mut heads = self.queue.heads.load(Relaxed);
            loop {
                let (worker_head, stealer_head) = unpack(heads);

                debug_or_loom_assert_eq!(stealer_head, self.from_head);

                let res = self.queue.heads.compare_exchange_weak(
                    heads,
                    pack(worker_head, worker_head),
                    AcqRel,
                    Acquire,
                );

                match res {
                    Ok(_) => break,
                    Err(h) => {
                        heads = h;
                    }
                }
            }
        }

        item
    }

    fn size_hint(&self) -> (usize, Option<usize>) {
        let sz = self.to_head.wrapping_sub(self.head) as usize;

        (sz, Some(sz))
    }
}

impl<'a, T> ExactSizeIterator for Drain<'a, T> {}

impl<'a, T> FusedIterator for Drain<'a, T> {}

impl<'a, T> Drop for Drain<'a, T> {
    fn drop(&mut self) {
        // Drop all items and make sure the head is updated so that subsequent
        // stealing operations can succeed.
        for _item in self {}
    }
}

impl<'a, T> UnwindSafe for Drain<'a, T> {}
impl<'a, T> RefUnwindSafe for Drain<'a, T> {}
unsafe impl<'a, T: Send> Send for Drain<'a, T> {}
unsafe impl<'a, T: Send> Sync for Drain<'a, T> {}

/// Handle for multi-threaded stealing operations.
#[derive(Debug)]
#[repr(transparent)]
pub struct Stealer<T> {
    queue: Arc<Queue<T>>,
}

impl<T> Stealer<T> {
    /// Attempts to steal items from the head of the queue and move them to the
    /// tail of another queue.
    ///
    /// Up to `N` items are moved to the destination queue, where `N` is
    /// specified by a closure which takes as argument the total count of items
    /// available for stealing. Upon success, the number of items ultimately
    /// transferred to the destination queue can be from 1 to `N`, depending on
    /// the number of available items and the capacity of the destination queue;
    /// the count of transferred items is returned as the success payload.
    ///
    /// # Errors
    ///
    /// An error is returned in the following cases:
    /// 1) no item was stolen, either because the queue is empty, the
    ///    destination is full or `N` is 0,
    /// 2) a concurrent stealing operation is ongoing.
    pub fn steal<C>(&self, dest: &Worker<T>, count_fn: C) -> Result<usize, StealError>
    where
        C: FnMut(usize) -> usize,
    {
        let _vsim_guard = vstd::sim::OverlapGuard::enter(Arc::as_ptr(&dest.queue) as *const () as usize, "cause.st3.overlapping-push"); // vsim hook: steal writes the destination like a push
        // Compute the free capacity of the destination queue.
        //
        // Ordering: see `Worker::push()` method.
        let dest_tail = dest.queue.tail.load(Relaxed);
        let dest_stealer_head = unpack(dest.queue.heads.load(Acquire)).1;
        let dest_free_capacity = dest.queue.capacity() - dest_tail.wrapping_sub(dest_stealer_head);

        debug_or_loom_assert!(dest_free_capacity <= dest.queue.capacity());

        let (stealer_head, transfer_count) = self.queue.book_items(count_fn, dest_free_capacity)?;

        debug_or_loom_assert!(transfer_count <= dest_free_capacity);

        // Move all items but the last to the destination queue.
        for offset in 0..transfer_count {
            unsafe {
                let item = self.queue.read_at(stealer_head.wrapping_add(offset));
                dest.queue.write_at(dest_tail.wrapping_add(offset), item);
            }
        }

        // Make the moved items visible by updating the destination tail position.
        //
        // Ordering: see comments in the `push()` method.
        dest.queue
            .tail
            .store(dest_tail.wrapping_add(transfer_count), Release);

        // Signal that the stealing operation has completed.
        let mut heads = self.queue.heads.load(Relaxed);
        loop {
            let (worker_head, sh) = unpack(heads);

            debug_or_loom_assert_eq!(stealer_head, sh);

            let res = self.queue.heads.compare_exchange_weak(
                heads,
                pack(worker_head, worker_head),
                AcqRel,
                Acquire,
            );

            match res {
                Ok(_) => {
                    vstd::sim::aux("worker.steal", Arc::as_ptr(&self.queue) as *const () as usize, Arc::as_ptr(&dest.queue) as *const () as usize, transfer_count as usize); // vsim hook
                    if core::any::type_name::<T>().contains("coroutine::") { vstd::sim::count("cause.sched.coroutine-moved"); } // vsim hook: a coroutine moved to another scheduler
                    return Ok(transfer_count as usize);
                }
                Err(h) => {
                    heads = h;
                }
            }
        }
    }

    /// Attempts to steal items from the head of the queue, returning one of
    /// them directly and moving the others to the tail of another queue.
    ///
    /// Up to `N` items are stolen (including the one returned directly), where
    /// `N` is specified by a closure which takes as argument the total count of
    /// items available for stealing. Upon success, one item is returned and
    /// from 0 to `N-1` items are moved to the destination queue, depending on
    /// the number of available items and the capacity of the destination queue;
    /// the number of transferred items is returned as the second field of the
    /// success value.
    ///
    /// The returned item is the most recent one among the stolen items.
    ///
    /// # Errors
    ///
    /// An error is returned in the following cases:
    /// 1) no item was stolen, either because the queue is empty or `N` is 0,
    /// 2) a concurrent stealing operation is ongoing.
    ///
    /// Failure to transfer any item to the destination queue is not considered
    /// an error as long as one element could be returned directly. This can
    /// occur if the destination queue is full, if the source queue has only one
    /// item or if `N` is 1.
    pub fn steal_and_pop<C>(&self, dest: &Worker<T>, count_fn: C) -> Result<(T, usize), StealError>
    where
        C: FnMut(usize) -> usize,
    {
        // Compute the free capacity of the destination queue.
        //
        // Ordering: see `Worker::push()` method.
        let dest_tail = dest.queue.tail.load(Relaxed);
        let dest_stealer_head = unpack(dest.queue.heads.load(Acquire)).1;
        let dest_free_capacity = dest.queue.capacity() - dest_tail.wrapping_sub(dest_stealer_head);

        debug_or_loom_assert!(dest_free_capacity <= dest.queue.capacity());

        let (stealer_head, count) = self.queue.book_items(count_fn, dest_free_capacity + 1)?;
        let transfer_count = count - 1;

        debug_or_loom_assert!(transfer_count <= dest_free_capacity);

        // Move all items but the last to the destination queue.
        for offset in 0..transfer_count {
            unsafe {
                let item = self.queue.read_at(stealer_head.wrapping_add(offset));
                dest.queue.write_at(dest_tail.wrapping_add(offset), item);
            }
        }

        // Read the last item.
        let last_item = unsafe {
            self.queue
                .read_at(stealer_head.wrapping_add(transfer_count))
        };

        // Make the moved items visible by updating the destination tail position.
        //
        // Ordering: see comments in the `push()` method.
        dest.queue
            .tail
            .store(dest_tail.wrapping_add(transfer_count), Release);

        // Signal that the stealing operation has completed.
        let mut heads = self.queue.heads.load(Relaxed);
        loop {
            let (worker_head, sh) = unpack(heads);

            debug_or_loom_assert_eq!(stealer_head, sh);

            let res = self.queue.heads.compare_exchange_weak(
                heads,
                pack(worker_head, worker_head),
                AcqRel,
                Acquire,
            );

            match res {
                Ok(_) => return Ok((last_item, transfer_count as usize)),
                Err(h) => {
                    heads = h;
                }
            }
        }
    }
}

impl<T> Clone for Stealer<T> {
    fn clone(&self) -> Self {
        Stealer {
            queue: self.queue.clone(),
        }
    }
}

impl<T> PartialEq for Stealer<T> {
    fn eq(&self, other: &Self) -> bool {
        Arc::ptr_eq(&self.queue, &other.queue)
    }
}

impl<T> Eq for Stealer<T> {}

impl<T> UnwindSafe for Stealer<T> {}
impl<T> RefUnwindSafe for Stealer<T> {}
unsafe impl<T: Send> Send for Stealer<T> {}
unsafe impl<T: Send> Sync for Stealer<T> {}
