// vsim: the queue's atomics are the simulator's, so the scheduler can interleave other threads
// between any two of them. Everything else in this crate is the unmodified st3 0.4.1 source.
pub(crate) mod sync {
    pub(crate) mod atomic {
        pub(crate) use vstd::sync::atomic::AtomicU32;
        pub(crate) use vstd::sync::atomic::AtomicU64;
    }
}

pub(crate) mod cell {
    #[derive(Debug)]
    pub(crate) struct UnsafeCell<T>(core::cell::UnsafeCell<T>);

    #[allow(dead_code)]
    impl<T> UnsafeCell<T> {
        pub(crate) fn new(data: T) -> UnsafeCell<T> {
            UnsafeCell(core::cell::UnsafeCell::new(data))
        }
        pub(crate) fn with<R>(&self, f: impl FnOnce(*const T) -> R) -> R {
            f(self.0.get())
        }
        pub(crate) fn with_mut<R>(&self, f: impl FnOnce(*mut T) -> R) -> R {
            f(self.0.get())
        }
    }
}

#[allow(unused_macros)]
macro_rules! debug_or_loom_assert {
    ($($arg:tt)*) => (if cfg!(debug_assertions) { assert!($($arg)*); })
}
#[allow(unused_macros)]
macro_rules! debug_or_loom_assert_eq {
    ($($arg:tt)*) => (if cfg!(debug_assertions) { assert_eq!($($arg)*); })
}
#[allow(unused_imports)]
pub(crate) use debug_or_loom_assert;
#[allow(unused_imports)]
pub(crate) use debug_or_loom_assert_eq;
