//! Drop-in subset of `dashmap` 6 for the simulator.
//!
//! Same observable contract as the real crate for the calls open-coroutine makes: a sharded hash
//! map whose `get`/`iter` hold a shard read lock for the life of the returned guard and whose
//! `insert`/`remove`/`get_mut` take the shard write lock. The locks are simulated: a thread that
//! must wait is blocked in the simulator (so another thread can run), and a thread that re-locks a
//! shard it already holds in a conflicting mode is recorded (`cause.dashmap.self-relock`) and then
//! blocks forever, exactly as the real non-reentrant lock would.
#![allow(clippy::all, clippy::pedantic)]
use std::borrow::Borrow;
use std::cell::UnsafeCell;
use std::collections::HashMap;
use std::hash::{BuildHasher, BuildHasherDefault, DefaultHasher, Hash};
use std::ops::{Deref, DerefMut};
use vstd::sim::{self, Reason};

type Fixed = BuildHasherDefault<DefaultHasher>;

struct LockState {
    readers: Vec<usize>,
    writer: Option<usize>,
}

struct Shard<K, V> {
    lock: UnsafeCell<LockState>,
    map: UnsafeCell<HashMap<K, V, Fixed>>,
}

impl<K, V> Shard<K, V> {
    fn new() -> Self {
        Shard {
            lock: UnsafeCell::new(LockState {
                readers: Vec::new(),
                writer: None,
            }),
            map: UnsafeCell::new(HashMap::default()),
        }
    }
    #[allow(clippy::mut_from_ref)]
    fn ls(&self) -> &mut LockState {
        unsafe { &mut *self.lock.get() }
    }
    fn addr(&self) -> usize {
        std::ptr::from_ref(self) as usize
    }
    fn me() -> usize {
        sim::current_tid().unwrap_or(usize::MAX - 1)
    }
    fn lock_read(&self) {
        let me = Self::me();
        loop {
            let ls = self.ls();
            match ls.writer {
                None => {
                    ls.readers.push(me);
                    return;
                }
                Some(w) => {
                    if w == me {
                        sim::count("cause.dashmap.self-relock");
                    }
                    if !sim::is_active() {
                        panic!("dashmap shim: shard contended outside the simulation");
                    }
                    sim::count("dashmap.shard-wait");
                    _ = sim::block(Reason::Shard(self.addr(), 0), None);
                }
            }
        }
    }
    fn lock_write(&self) {
        let me = Self::me();
        loop {
            let ls = self.ls();
            if ls.writer.is_none() && ls.readers.is_empty() {
                ls.writer = Some(me);
                return;
            }
            if ls.writer == Some(me) || ls.readers.contains(&me) {
                sim::count("cause.dashmap.self-relock");
            }
            if !sim::is_active() {
                panic!("dashmap shim: shard contended outside the simulation");
            }
            sim::count("dashmap.shard-wait");
            _ = sim::block(Reason::Shard(self.addr(), 0), None);
        }
    }
    fn unlock_read(&self) {
        let me = Self::me();
        let ls = self.ls();
        if let Some(p) = ls.readers.iter().position(|r| *r == me) {
            _ = ls.readers.swap_remove(p);
        } else if !ls.readers.is_empty() {
            // guard moved to another thread: release one reader anyway
            _ = ls.readers.pop();
        }
        sim::wake_all(Reason::Shard(self.addr(), 0));
    }
    fn unlock_write(&self) {
        self.ls().writer = None;
        sim::wake_all(Reason::Shard(self.addr(), 0));
    }
    #[allow(clippy::mut_from_ref)]
    fn m(&self) -> &mut HashMap<K, V, Fixed> {
        unsafe { &mut *self.map.get() }
    }
}

pub struct DashMap<K, V> {
    shards: Box<[Shard<K, V>]>,
}

unsafe impl<K: Send, V: Send> Send for DashMap<K, V> {}
unsafe impl<K: Send + Sync, V: Send + Sync> Sync for DashMap<K, V> {}

fn shard_count() -> usize {
    let n = sim::knob("dashmap.shards", 4) as usize;
    n.max(1).next_power_of_two()
}

impl<K: Eq + Hash, V> Default for DashMap<K, V> {
    fn default() -> Self {
        DashMap::new()
    }
}

impl<K, V> std::fmt::Debug for DashMap<K, V>
where
    K: std::fmt::Debug,
    V: std::fmt::Debug,
{
    fn fmt(&self, f: &mut std::fmt::Formatter<'_>) -> std::fmt::Result {
        let mut d = f.debug_map();
        for s in self.shards.iter() {
            for (k, v) in s.m().iter() {
                _ = d.entry(k, v);
            }
        }
        d.finish()
    }
}

impl<K: Eq + Hash, V> DashMap<K, V> {
    pub fn new() -> Self {
        let n = shard_count();
        DashMap {
            shards: (0..n).map(|_| Shard::new()).collect(),
        }
    }

    pub fn with_capacity(_: usize) -> Self {
        DashMap::new()
    }

    fn shard_of<Q: Hash + ?Sized>(&self, key: &Q) -> &Shard<K, V> {
        let h = Fixed::default().hash_one(key);
        // use high bits so the in-shard table (low bits) is independent
        let idx = ((h >> 40) as usize) & (self.shards.len() - 1);
        &self.shards[idx]
    }

    pub fn insert(&self, key: K, value: V) -> Option<V> {
        sim::point("dashmap.insert");
        let s = self.shard_of(&key);
        s.lock_write();
        let r = s.m().insert(key, value);
        s.unlock_write();
        r
    }

    pub fn remove<Q>(&self, key: &Q) -> Option<(K, V)>
    where
        K: Borrow<Q>,
        Q: Hash + Eq + ?Sized,
    {
        sim::point("dashmap.remove");
        let s = self.shard_of(key);
        s.lock_write();
        let r = s.m().remove_entry(key);
        s.unlock_write();
        r
    }

    pub fn get<Q>(&self, key: &Q) -> Option<Ref<'_, K, V>>
    where
        K: Borrow<Q>,
        Q: Hash + Eq + ?Sized,
    {
        sim::point("dashmap.get");
        let s = self.shard_of(key);
        s.lock_read();
        match s.m().get_key_value(key) {
            Some((k, v)) => Some(Ref {
                shard: s,
                k: std::ptr::from_ref(k),
                v: std::ptr::from_ref(v),
            }),
            None => {
                s.unlock_read();
                None
            }
        }
    }

    pub fn get_mut<Q>(&self, key: &Q) -> Option<RefMut<'_, K, V>>
    where
        K: Borrow<Q>,
        Q: Hash + Eq + ?Sized,
    {
        sim::point("dashmap.get_mut");
        let s = self.shard_of(key);
        s.lock_write();
        let found = s.m().get_key_value(key).map(|(k, _)| std::ptr::from_ref(k));
        match found {
            Some(k) => {
                let v = std::ptr::from_mut(s.m().get_mut(key).expect("present"));
                Some(RefMut { shard: s, k, v })
            }
            None => {
                s.unlock_write();
                None
            }
        }
    }

    pub fn contains_key<Q>(&self, key: &Q) -> bool
    where
        K: Borrow<Q>,
        Q: Hash + Eq + ?Sized,
    {
        sim::point("dashmap.contains_key");
        let s = self.shard_of(key);
        s.lock_read();
        let r = s.m().contains_key(key);
        s.unlock_read();
        r
    }

    pub fn len(&self) -> usize {
        sim::point("dashmap.len");
        let mut n = 0;
        for s in self.shards.iter() {
            s.lock_read();
            n += s.m().len();
            s.unlock_read();
        }
        n
    }

    pub fn is_empty(&self) -> bool {
        self.len() == 0
    }

    pub fn clear(&self) {
        sim::point("dashmap.clear");
        for s in self.shards.iter() {
            s.lock_write();
            s.m().clear();
            s.unlock_write();
        }
    }

    pub fn iter(&self) -> Iter<'_, K, V> {
        sim::point("dashmap.iter");
        Iter {
            map: self,
            shard: 0,
            items: Vec::new(),
            pos: 0,
            locked: false,
        }
    }

    /// Number of entries, without scheduling points or locking (oracle use only).
    pub fn peek_len(&self) -> usize {
        self.shards.iter().map(|s| s.m().len()).sum()
    }

    /// Keys, without scheduling points or locking (oracle use only).
    pub fn peek_keys(&self) -> Vec<K>
    where
        K: Clone,
    {
        let mut v = Vec::new();
        for s in self.shards.iter() {
            v.extend(s.m().keys().cloned());
        }
        v
    }
}

pub struct Ref<'a, K, V> {
    shard: &'a Shard<K, V>,
    k: *const K,
    v: *const V,
}

impl<K, V> Ref<'_, K, V> {
    pub fn key(&self) -> &K {
        unsafe { &*self.k }
    }
    pub fn value(&self) -> &V {
        unsafe { &*self.v }
    }
    pub fn pair(&self) -> (&K, &V) {
        (self.key(), self.value())
    }
}

impl<K, V> Deref for Ref<'_, K, V> {
    type Target = V;
    fn deref(&self) -> &V {
        self.value()
    }
}

impl<K, V> Drop for Ref<'_, K, V> {
    fn drop(&mut self) {
        self.shard.unlock_read();
    }
}

impl<K, V: std::fmt::Debug> std::fmt::Debug for Ref<'_, K, V> {
    fn fmt(&self, f: &mut std::fmt::Formatter<'_>) -> std::fmt::Result {
        self.value().fmt(f)
    }
}

pub struct RefMut<'a, K, V> {
    shard: &'a Shard<K, V>,
    k: *const K,
    v: *mut V,
}

impl<K, V> RefMut<'_, K, V> {
    pub fn key(&self) -> &K {
        unsafe { &*self.k }
    }
    pub fn value(&self) -> &V {
        unsafe { &*self.v }
    }
    pub fn value_mut(&mut self) -> &mut V {
        unsafe { &mut *self.v }
    }
}

impl<K, V> Deref for RefMut<'_, K, V> {
    type Target = V;
    fn deref(&self) -> &V {
        self.value()
    }
}

impl<K, V> DerefMut for RefMut<'_, K, V> {
    fn deref_mut(&mut self) -> &mut V {
        self.value_mut()
    }
}

impl<K, V> Drop for RefMut<'_, K, V> {
    fn drop(&mut self) {
        self.shard.unlock_write();
    }
}

/// Iterates shard by shard; the current shard's read lock is held until the iterator moves on
/// or is dropped.
pub struct Iter<'a, K, V> {
    map: &'a DashMap<K, V>,
    shard: usize,
    items: Vec<(*const K, *const V)>,
    pos: usize,
    locked: bool,
}

pub struct RefMulti<'a, K, V> {
    k: *const K,
    v: *const V,
    _p: std::marker::PhantomData<&'a (K, V)>,
}

impl<K, V> RefMulti<'_, K, V> {
    pub fn key(&self) -> &K {
        unsafe { &*self.k }
    }
    pub fn value(&self) -> &V {
        unsafe { &*self.v }
    }
    pub fn pair(&self) -> (&K, &V) {
        (self.key(), self.value())
    }
}

impl<K, V> Deref for RefMulti<'_, K, V> {
    type Target = V;
    fn deref(&self) -> &V {
        self.value()
    }
}

impl<'a, K: Eq + Hash, V> Iterator for Iter<'a, K, V> {
    type Item = RefMulti<'a, K, V>;
    fn next(&mut self) -> Option<Self::Item> {
        loop {
            if self.pos < self.items.len() {
                let (k, v) = self.items[self.pos];
                self.pos += 1;
                return Some(RefMulti {
                    k,
                    v,
                    _p: std::marker::PhantomData,
                });
            }
            if self.locked {
                self.map.shards[self.shard].unlock_read();
                self.locked = false;
                self.shard += 1;
            }
            if self.shard >= self.map.shards.len() {
                return None;
            }
            sim::point("dashmap.iter.shard");
            let s = &self.map.shards[self.shard];
            s.lock_read();
            self.locked = true;
            self.items = s
                .m()
                .iter()
                .map(|(k, v)| (std::ptr::from_ref(k), std::ptr::from_ref(v)))
                .collect();
            self.pos = 0;
        }
    }
}

impl<K, V> Drop for Iter<'_, K, V> {
    fn drop(&mut self) {
        if self.locked {
            self.map.shards[self.shard].unlock_read();
        }
    }
}

impl<'a, K: Eq + Hash, V> IntoIterator for &'a DashMap<K, V> {
    type Item = RefMulti<'a, K, V>;
    type IntoIter = Iter<'a, K, V>;
    fn into_iter(self) -> Self::IntoIter {
        self.iter()
    }
}

pub struct DashSet<K> {
    inner: DashMap<K, ()>,
}

impl<K: Eq + Hash> Default for DashSet<K> {
    fn default() -> Self {
        DashSet::new()
    }
}

impl<K: std::fmt::Debug> std::fmt::Debug for DashSet<K> {
    fn fmt(&self, f: &mut std::fmt::Formatter<'_>) -> std::fmt::Result {
        let mut d = f.debug_set();
        for s in self.inner.shards.iter() {
            for k in s.m().keys() {
                _ = d.entry(k);
            }
        }
        d.finish()
    }
}

impl<K: Eq + Hash> DashSet<K> {
    pub fn new() -> Self {
        DashSet {
            inner: DashMap::new(),
        }
    }
    pub fn insert(&self, key: K) -> bool {
        self.inner.insert(key, ()).is_none()
    }
    pub fn remove<Q>(&self, key: &Q) -> Option<K>
    where
        K: Borrow<Q>,
        Q: Hash + Eq + ?Sized,
    {
        self.inner.remove(key).map(|(k, ())| k)
    }
    pub fn contains<Q>(&self, key: &Q) -> bool
    where
        K: Borrow<Q>,
        Q: Hash + Eq + ?Sized,
    {
        self.inner.contains_key(key)
    }
    pub fn len(&self) -> usize {
        self.inner.len()
    }
    pub fn is_empty(&self) -> bool {
        self.inner.is_empty()
    }
    pub fn clear(&self) {
        self.inner.clear();
    }
    pub fn peek_len(&self) -> usize {
        self.inner.peek_len()
    }
}

// ---- entry API (shard write lock held for the life of the entry) ----
pub mod mapref {
    pub mod entry {
        pub use crate::{Entry, OccupiedEntry, VacantEntry};
    }
    pub mod one {
        pub use crate::{Ref, RefMut};
    }
    pub mod multiple {
        pub use crate::RefMulti;
    }
}

pub enum Entry<'a, K, V> {
    Occupied(OccupiedEntry<'a, K, V>),
    Vacant(VacantEntry<'a, K, V>),
}

pub struct OccupiedEntry<'a, K, V> {
    shard: &'a Shard<K, V>,
    key: K,
    released: bool,
}

pub struct VacantEntry<'a, K, V> {
    shard: &'a Shard<K, V>,
    key: Option<K>,
    released: bool,
}

impl<K: Eq + Hash, V> DashMap<K, V> {
    pub fn entry(&self, key: K) -> Entry<'_, K, V> {
        sim::point("dashmap.entry");
        let s = self.shard_of(&key);
        s.lock_write();
        if s.m().contains_key(&key) {
            Entry::Occupied(OccupiedEntry {
                shard: s,
                key,
                released: false,
            })
        } else {
            Entry::Vacant(VacantEntry {
                shard: s,
                key: Some(key),
                released: false,
            })
        }
    }
}

impl<'a, K: Eq + Hash, V> Entry<'a, K, V> {
    pub fn or_insert_with(self, f: impl FnOnce() -> V) -> RefMut<'a, K, V> {
        match self {
            Entry::Occupied(e) => e.into_ref(),
            Entry::Vacant(e) => e.insert(f()),
        }
    }
    pub fn or_insert(self, v: V) -> RefMut<'a, K, V> {
        self.or_insert_with(|| v)
    }
    pub fn or_default(self) -> RefMut<'a, K, V>
    where
        V: Default,
    {
        self.or_insert_with(V::default)
    }
}

impl<'a, K: Eq + Hash, V> OccupiedEntry<'a, K, V> {
    pub fn get(&self) -> &V {
        self.shard.m().get(&self.key).expect("occupied")
    }
    pub fn key(&self) -> &K {
        &self.key
    }
    pub fn into_ref(mut self) -> RefMut<'a, K, V> {
        self.released = true;
        let k = self.shard.m().get_key_value(&self.key).map(|(k, _)| std::ptr::from_ref(k)).expect("occupied");
        let v = std::ptr::from_mut(self.shard.m().get_mut(&self.key).expect("occupied"));
        RefMut {
            shard: self.shard,
            k,
            v,
        }
    }
    pub fn remove(mut self) -> V {
        let v = self.shard.m().remove(&self.key).expect("occupied");
        self.released = true;
        self.shard.unlock_write();
        v
    }
}

impl<K, V> Drop for OccupiedEntry<'_, K, V> {
    fn drop(&mut self) {
        if !self.released {
            self.shard.unlock_write();
        }
    }
}

impl<'a, K: Eq + Hash, V> VacantEntry<'a, K, V> {
    pub fn insert(mut self, value: V) -> RefMut<'a, K, V> {
        self.released = true;
        let key = self.key.take().expect("key");
        let occ = match self.shard.m().entry(key) {
            std::collections::hash_map::Entry::Vacant(v) => v.insert_entry(value),
            std::collections::hash_map::Entry::Occupied(mut o) => {
                _ = o.insert(value);
                o
            }
        };
        let k = std::ptr::from_ref(occ.key());
        let v = std::ptr::from_mut(occ.into_mut());
        RefMut {
            shard: self.shard,
            k,
            v,
        }
    }
    pub fn key(&self) -> &K {
        self.key.as_ref().expect("key")
    }
}

impl<K, V> Drop for VacantEntry<'_, K, V> {
    fn drop(&mut self) {
        if !self.released {
            self.shard.unlock_write();
        }
    }
}
