#![allow(clippy::all, clippy::pedantic)]
use vstd::sim;

#[derive(Clone, Copy, Debug, PartialEq, Eq, Hash, PartialOrd, Ord)]
pub struct Uuid(u128);

impl Uuid {
    #[must_use]
    pub fn new_v4() -> Self {
        let (a, b) = sim::id_rng(|g| (g.next_u64(), g.next_u64()));
        Uuid((u128::from(a) << 64) | u128::from(b))
    }
    #[must_use]
    pub fn as_u128(&self) -> u128 {
        self.0
    }
}

impl std::fmt::Display for Uuid {
    fn fmt(&self, f: &mut std::fmt::Formatter<'_>) -> std::fmt::Result {
        let x = self.0;
        write!(
            f,
            "{:08x}-{:04x}-{:04x}-{:04x}-{:012x}",
            (x >> 96) as u32,
            (x >> 80) as u16,
            (x >> 64) as u16,
            (x >> 48) as u16,
            x & 0xffff_ffff_ffff
        )
    }
}
