//! std::sync with simulated Mutex / Condvar / atomics. Everything else is std's own.
use crate::sim::{self, Reason};
use std::cell::{Cell, UnsafeCell};
use std::collections::VecDeque;
use std::ops::{Deref, DerefMut};
pub use std::sync::{
    mpsc, Arc, Barrier, LockResult, Once, OnceLock, PoisonError, RwLock, TryLockError,
    TryLockResult, Weak,
};
use std::time::Duration;

pub struct Mutex<T: ?Sized> {
    locked: Cell<bool>,
    owner: Cell<usize>,
    data: UnsafeCell<T>,
}

unsafe impl<T: ?Sized + Send> Send for Mutex<T> {}
unsafe impl<T: ?Sized + Send> Sync for Mutex<T> {}
impl<T: ?Sized> std::panic::UnwindSafe for Mutex<T> {}
impl<T: ?Sized> std::panic::RefUnwindSafe for Mutex<T> {}

pub struct MutexGuard<'a, T: ?Sized> {
    m: &'a Mutex<T>,
}

impl<T> Mutex<T> {
    pub const fn new(t: T) -> Self {
        Mutex {
            locked: Cell::new(false),
            owner: Cell::new(usize::MAX),
            data: UnsafeCell::new(t),
        }
    }
    pub fn into_inner(self) -> LockResult<T> {
        Ok(self.data.into_inner())
    }
}

impl<T: ?Sized> Mutex<T> {
    fn addr(&self) -> usize {
        std::ptr::from_ref(&self.locked) as usize
    }

    fn acquire(&self) {
        while self.locked.get() {
            if !sim::is_active() {
                panic!("vstd::Mutex contended outside the simulation");
            }
            let me = sim::current_tid().unwrap_or(usize::MAX);
            if self.owner.get() == me {
                sim::count("cause.mutex.self-relock");
            }
            _ = sim::block(Reason::Mutex(self.addr()), None);
        }
        self.locked.set(true);
        self.owner.set(sim::current_tid().unwrap_or(usize::MAX));
    }

    pub fn lock(&self) -> LockResult<MutexGuard<'_, T>> {
        sim::point("mutex.lock");
        self.acquire();
        Ok(MutexGuard { m: self })
    }

    pub fn try_lock(&self) -> TryLockResult<MutexGuard<'_, T>> {
        sim::point("mutex.try_lock");
        if self.locked.get() {
            return Err(TryLockError::WouldBlock);
        }
        self.locked.set(true);
        self.owner.set(sim::current_tid().unwrap_or(usize::MAX));
        Ok(MutexGuard { m: self })
    }

    pub fn get_mut(&mut self) -> LockResult<&mut T> {
        Ok(self.data.get_mut())
    }

    pub fn is_poisoned(&self) -> bool {
        false
    }

    fn release(&self) {
        self.locked.set(false);
        self.owner.set(usize::MAX);
        sim::wake_all(Reason::Mutex(self.addr()));
    }
}

impl<T: Default> Default for Mutex<T> {
    fn default() -> Self {
        Mutex::new(T::default())
    }
}

impl<T: ?Sized + std::fmt::Debug> std::fmt::Debug for Mutex<T> {
    fn fmt(&self, f: &mut std::fmt::Formatter<'_>) -> std::fmt::Result {
        f.debug_struct("Mutex")
            .field("locked", &self.locked.get())
            .finish_non_exhaustive()
    }
}

impl<T> From<T> for Mutex<T> {
    fn from(t: T) -> Self {
        Mutex::new(t)
    }
}

impl<T: ?Sized> Deref for MutexGuard<'_, T> {
    type Target = T;
    fn deref(&self) -> &T {
        unsafe { &*self.m.data.get() }
    }
}

impl<T: ?Sized> DerefMut for MutexGuard<'_, T> {
    fn deref_mut(&mut self) -> &mut T {
        unsafe { &mut *self.m.data.get() }
    }
}

impl<T: ?Sized> Drop for MutexGuard<'_, T> {
    fn drop(&mut self) {
        self.m.release();
    }
}

impl<T: ?Sized + std::fmt::Debug> std::fmt::Debug for MutexGuard<'_, T> {
    fn fmt(&self, f: &mut std::fmt::Formatter<'_>) -> std::fmt::Result {
        (**self).fmt(f)
    }
}

#[derive(Clone, Copy, Debug, PartialEq, Eq)]
pub struct WaitTimeoutResult(bool);

impl WaitTimeoutResult {
    #[must_use]
    pub fn timed_out(&self) -> bool {
        self.0
    }
}

struct Waiter {
    tid: usize,
    notified: Arc<Cell<bool>>,
}

pub struct Condvar {
    waiters: UnsafeCell<VecDeque<Waiter>>,
}

unsafe impl Send for Condvar {}
unsafe impl Sync for Condvar {}
impl std::panic::UnwindSafe for Condvar {}
impl std::panic::RefUnwindSafe for Condvar {}

impl Default for Condvar {
    fn default() -> Self {
        Condvar::new()
    }
}

impl std::fmt::Debug for Condvar {
    fn fmt(&self, f: &mut std::fmt::Formatter<'_>) -> std::fmt::Result {
        f.debug_struct("Condvar").finish_non_exhaustive()
    }
}

fn deadline_after(dur: Duration) -> u64 {
    sim::now_ns().saturating_add(u64::try_from(dur.as_nanos()).unwrap_or(u64::MAX))
}

impl Condvar {
    pub const fn new() -> Self {
        Condvar {
            waiters: UnsafeCell::new(VecDeque::new()),
        }
    }

    fn addr(&self) -> usize {
        std::ptr::from_ref(self) as usize
    }

    #[allow(clippy::mut_from_ref)]
    fn q(&self) -> &mut VecDeque<Waiter> {
        unsafe { &mut *self.waiters.get() }
    }

    /// One wait: release the mutex, block until notified / deadline / spurious, re-acquire.
    /// Returns true if it returned because of the deadline.
    fn wait_once<'a, T: ?Sized>(
        &self,
        guard: MutexGuard<'a, T>,
        deadline: Option<u64>,
    ) -> (MutexGuard<'a, T>, bool) {
        let m = guard.m;
        if !sim::is_active() {
            return (guard, true);
        }
        let flag = Arc::new(Cell::new(false));
        let me = sim::current_tid().unwrap_or(usize::MAX);
        self.q().push_back(Waiter {
            tid: me,
            notified: flag.clone(),
        });
        std::mem::forget(guard);
        m.release();
        let mut timed_out = false;
        loop {
            if flag.get() {
                break;
            }
            if let Some(d) = deadline {
                if sim::now_ns() >= d {
                    timed_out = true;
                    break;
                }
            }
            let w = sim::block(Reason::Cond(self.addr()), deadline);
            if !sim::is_active() {
                break;
            }
            if w == sim::Wake::Spurious {
                break;
            }
        }
        if !flag.get() {
            // not consumed by a notify: withdraw
            let q = self.q();
            if let Some(pos) = q.iter().position(|w| Arc::ptr_eq(&w.notified, &flag)) {
                _ = q.remove(pos);
            }
        }
        sim::point("cv.relock");
        m.acquire();
        (MutexGuard { m }, timed_out && !flag.get())
    }

    pub fn wait<'a, T: ?Sized>(&self, guard: MutexGuard<'a, T>) -> LockResult<MutexGuard<'a, T>> {
        sim::point("cv.wait");
        Ok(self.wait_once(guard, None).0)
    }

    pub fn wait_while<'a, T: ?Sized, F>(
        &self,
        mut guard: MutexGuard<'a, T>,
        mut condition: F,
    ) -> LockResult<MutexGuard<'a, T>>
    where
        F: FnMut(&mut T) -> bool,
    {
        sim::point("cv.wait_while");
        while condition(&mut *guard) {
            if !sim::is_active() {
                panic!("vstd::Condvar::wait_while would block outside the simulation");
            }
            guard = self.wait_once(guard, None).0;
        }
        Ok(guard)
    }

    pub fn wait_timeout<'a, T: ?Sized>(
        &self,
        guard: MutexGuard<'a, T>,
        dur: Duration,
    ) -> LockResult<(MutexGuard<'a, T>, WaitTimeoutResult)> {
        sim::point("cv.wait_timeout");
        let d = deadline_after(dur);
        let (g, t) = self.wait_once(guard, Some(d));
        Ok((g, WaitTimeoutResult(t)))
    }

    pub fn wait_timeout_while<'a, T: ?Sized, F>(
        &self,
        mut guard: MutexGuard<'a, T>,
        dur: Duration,
        mut condition: F,
    ) -> LockResult<(MutexGuard<'a, T>, WaitTimeoutResult)>
    where
        F: FnMut(&mut T) -> bool,
    {
        sim::point("cv.wait_timeout_while");
        let d = deadline_after(dur);
        loop {
            if !condition(&mut *guard) {
                return Ok((guard, WaitTimeoutResult(false)));
            }
            if sim::now_ns() >= d || !sim::is_active() {
                return Ok((guard, WaitTimeoutResult(true)));
            }
            guard = self.wait_once(guard, Some(d)).0;
        }
    }

    pub fn notify_one(&self) {
        sim::point("cv.notify_one");
        if let Some(w) = self.q().pop_front() {
            w.notified.set(true);
            sim::wake_tid(w.tid);
        }
    }

    pub fn notify_all(&self) {
        sim::point("cv.notify_all");
        while let Some(w) = self.q().pop_front() {
            w.notified.set(true);
            sim::wake_tid(w.tid);
        }
    }
}

pub mod atomic {
    use crate::sim;
    pub use std::sync::atomic::{compiler_fence, fence, Ordering};

    macro_rules! atomic_int {
        ($name:ident, $std:ident, $t:ty) => {
            #[repr(transparent)]
            pub struct $name(std::sync::atomic::$std);

            impl $name {
                pub const fn new(v: $t) -> Self {
                    $name(std::sync::atomic::$std::new(v))
                }
                pub fn load(&self, o: Ordering) -> $t {
                    sim::point(concat!(stringify!($name), ".load"));
                    self.0.load(o)
                }
                pub fn store(&self, v: $t, o: Ordering) {
                    sim::point(concat!(stringify!($name), ".store"));
                    self.0.store(v, o);
                }
                pub fn swap(&self, v: $t, o: Ordering) -> $t {
                    sim::point(concat!(stringify!($name), ".swap"));
                    self.0.swap(v, o)
                }
                pub fn compare_exchange(
                    &self,
                    c: $t,
                    n: $t,
                    s: Ordering,
                    f: Ordering,
                ) -> Result<$t, $t> {
                    sim::point(concat!(stringify!($name), ".cas"));
                    self.0.compare_exchange(c, n, s, f)
                }
                pub fn compare_exchange_weak(
                    &self,
                    c: $t,
                    n: $t,
                    s: Ordering,
                    f: Ordering,
                ) -> Result<$t, $t> {
                    sim::point(concat!(stringify!($name), ".cas_weak"));
                    self.0.compare_exchange(c, n, s, f)
                }
                pub fn fetch_add(&self, v: $t, o: Ordering) -> $t {
                    sim::point(concat!(stringify!($name), ".fetch_add"));
                    self.0.fetch_add(v, o)
                }
                pub fn fetch_sub(&self, v: $t, o: Ordering) -> $t {
                    sim::point(concat!(stringify!($name), ".fetch_sub"));
                    self.0.fetch_sub(v, o)
                }
                pub fn fetch_and(&self, v: $t, o: Ordering) -> $t {
                    sim::point(concat!(stringify!($name), ".fetch_and"));
                    self.0.fetch_and(v, o)
                }
                pub fn fetch_or(&self, v: $t, o: Ordering) -> $t {
                    sim::point(concat!(stringify!($name), ".fetch_or"));
                    self.0.fetch_or(v, o)
                }
                pub fn fetch_xor(&self, v: $t, o: Ordering) -> $t {
                    sim::point(concat!(stringify!($name), ".fetch_xor"));
                    self.0.fetch_xor(v, o)
                }
                pub fn fetch_max(&self, v: $t, o: Ordering) -> $t {
                    sim::point(concat!(stringify!($name), ".fetch_max"));
                    self.0.fetch_max(v, o)
                }
                pub fn fetch_min(&self, v: $t, o: Ordering) -> $t {
                    sim::point(concat!(stringify!($name), ".fetch_min"));
                    self.0.fetch_min(v, o)
                }
                pub fn fetch_update<F: FnMut($t) -> Option<$t>>(
                    &self,
                    s: Ordering,
                    f: Ordering,
                    func: F,
                ) -> Result<$t, $t> {
                    sim::point(concat!(stringify!($name), ".fetch_update"));
                    self.0.fetch_update(s, f, func)
                }
                pub fn get_mut(&mut self) -> &mut $t {
                    self.0.get_mut()
                }
                pub fn into_inner(self) -> $t {
                    self.0.into_inner()
                }
                /// Read without a scheduling point (harness / oracle use).
                pub fn peek(&self) -> $t {
                    self.0.load(Ordering::SeqCst)
                }
            }

            impl Default for $name {
                fn default() -> Self {
                    $name::new(<$t>::default())
                }
            }

            impl std::fmt::Debug for $name {
                fn fmt(&self, f: &mut std::fmt::Formatter<'_>) -> std::fmt::Result {
                    self.0.load(Ordering::SeqCst).fmt(f)
                }
            }

            impl From<$t> for $name {
                fn from(v: $t) -> Self {
                    $name::new(v)
                }
            }
        };
    }

    atomic_int!(AtomicUsize, AtomicUsize, usize);
    atomic_int!(AtomicIsize, AtomicIsize, isize);
    atomic_int!(AtomicU64, AtomicU64, u64);
    atomic_int!(AtomicI64, AtomicI64, i64);
    atomic_int!(AtomicU32, AtomicU32, u32);
    atomic_int!(AtomicI32, AtomicI32, i32);
    atomic_int!(AtomicU16, AtomicU16, u16);
    atomic_int!(AtomicU8, AtomicU8, u8);

    #[repr(transparent)]
    pub struct AtomicBool(std::sync::atomic::AtomicBool);

    impl AtomicBool {
        pub const fn new(v: bool) -> Self {
            AtomicBool(std::sync::atomic::AtomicBool::new(v))
        }
        pub fn load(&self, o: Ordering) -> bool {
            sim::point("AtomicBool.load");
            self.0.load(o)
        }
        pub fn store(&self, v: bool, o: Ordering) {
            sim::point("AtomicBool.store");
            self.0.store(v, o);
        }
        pub fn swap(&self, v: bool, o: Ordering) -> bool {
            sim::point("AtomicBool.swap");
            self.0.swap(v, o)
        }
        pub fn compare_exchange(
            &self,
            c: bool,
            n: bool,
            s: Ordering,
            f: Ordering,
        ) -> Result<bool, bool> {
            sim::point("AtomicBool.cas");
            self.0.compare_exchange(c, n, s, f)
        }
        pub fn compare_exchange_weak(
            &self,
            c: bool,
            n: bool,
            s: Ordering,
            f: Ordering,
        ) -> Result<bool, bool> {
            sim::point("AtomicBool.cas_weak");
            self.0.compare_exchange(c, n, s, f)
        }
        pub fn fetch_and(&self, v: bool, o: Ordering) -> bool {
            sim::point("AtomicBool.fetch_and");
            self.0.fetch_and(v, o)
        }
        pub fn fetch_or(&self, v: bool, o: Ordering) -> bool {
            sim::point("AtomicBool.fetch_or");
            self.0.fetch_or(v, o)
        }
        pub fn fetch_xor(&self, v: bool, o: Ordering) -> bool {
            sim::point("AtomicBool.fetch_xor");
            self.0.fetch_xor(v, o)
        }
        pub fn get_mut(&mut self) -> &mut bool {
            self.0.get_mut()
        }
        pub fn into_inner(self) -> bool {
            self.0.into_inner()
        }
        pub fn peek(&self) -> bool {
            self.0.load(Ordering::SeqCst)
        }
    }

    impl Default for AtomicBool {
        fn default() -> Self {
            AtomicBool::new(false)
        }
    }

    impl std::fmt::Debug for AtomicBool {
        fn fmt(&self, f: &mut std::fmt::Formatter<'_>) -> std::fmt::Result {
            self.0.load(Ordering::SeqCst).fmt(f)
        }
    }

    #[repr(transparent)]
    pub struct AtomicPtr<T>(std::sync::atomic::AtomicPtr<T>);

    impl<T> AtomicPtr<T> {
        pub const fn new(p: *mut T) -> Self {
            AtomicPtr(std::sync::atomic::AtomicPtr::new(p))
        }
        pub fn load(&self, o: Ordering) -> *mut T {
            sim::point("AtomicPtr.load");
            self.0.load(o)
        }
        pub fn store(&self, p: *mut T, o: Ordering) {
            sim::point("AtomicPtr.store");
            self.0.store(p, o);
        }
        pub fn swap(&self, p: *mut T, o: Ordering) -> *mut T {
            sim::point("AtomicPtr.swap");
            self.0.swap(p, o)
        }
        pub fn compare_exchange(
            &self,
            c: *mut T,
            n: *mut T,
            s: Ordering,
            f: Ordering,
        ) -> Result<*mut T, *mut T> {
            sim::point("AtomicPtr.cas");
            self.0.compare_exchange(c, n, s, f)
        }
    }

    impl<T> Default for AtomicPtr<T> {
        fn default() -> Self {
            AtomicPtr::new(std::ptr::null_mut())
        }
    }

    impl<T> std::fmt::Debug for AtomicPtr<T> {
        fn fmt(&self, f: &mut std::fmt::Formatter<'_>) -> std::fmt::Result {
            self.0.load(Ordering::SeqCst).fmt(f)
        }
    }
}
