//! std::time on the simulated clock.
pub use std::time::Duration;
use std::ops::{Add, Sub};

#[derive(Clone, Copy, Debug, PartialEq, Eq, PartialOrd, Ord, Hash)]
pub struct SystemTime(u64);

pub const UNIX_EPOCH: SystemTime = SystemTime(0);

#[derive(Clone, Debug)]
pub struct SystemTimeError(#[allow(dead_code)] Duration);

impl std::fmt::Display for SystemTimeError {
    fn fmt(&self, f: &mut std::fmt::Formatter<'_>) -> std::fmt::Result {
        write!(f, "second time provided was later than self")
    }
}

impl SystemTime {
    pub const UNIX_EPOCH: SystemTime = SystemTime(0);
    pub fn now() -> Self {
        SystemTime(crate::sim::now_ns())
    }
    pub fn duration_since(&self, earlier: SystemTime) -> Result<Duration, SystemTimeError> {
        if self.0 >= earlier.0 {
            Ok(Duration::from_nanos(self.0 - earlier.0))
        } else {
            Err(SystemTimeError(Duration::from_nanos(earlier.0 - self.0)))
        }
    }
    pub fn elapsed(&self) -> Result<Duration, SystemTimeError> {
        SystemTime::now().duration_since(*self)
    }
}

#[derive(Clone, Copy, Debug, PartialEq, Eq, PartialOrd, Ord, Hash)]
pub struct Instant(u64);

impl Instant {
    pub fn now() -> Self {
        Instant(crate::sim::now_ns())
    }
    pub fn duration_since(&self, earlier: Instant) -> Duration {
        Duration::from_nanos(self.0.saturating_sub(earlier.0))
    }
    pub fn saturating_duration_since(&self, earlier: Instant) -> Duration {
        Duration::from_nanos(self.0.saturating_sub(earlier.0))
    }
    pub fn checked_duration_since(&self, earlier: Instant) -> Option<Duration> {
        self.0.checked_sub(earlier.0).map(Duration::from_nanos)
    }
    pub fn elapsed(&self) -> Duration {
        Instant::now().duration_since(*self)
    }
    pub fn checked_add(&self, d: Duration) -> Option<Instant> {
        u64::try_from(d.as_nanos()).ok().and_then(|n| self.0.checked_add(n)).map(Instant)
    }
}

impl Add<Duration> for Instant {
    type Output = Instant;
    fn add(self, d: Duration) -> Instant {
        Instant(self.0.saturating_add(u64::try_from(d.as_nanos()).unwrap_or(u64::MAX)))
    }
}

impl Sub<Instant> for Instant {
    type Output = Duration;
    fn sub(self, o: Instant) -> Duration {
        self.duration_since(o)
    }
}
