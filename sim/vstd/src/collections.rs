//! std::collections with deterministic hashing for HashMap, and a HashSet whose iterators notice
//! when the set is modified underneath them (the monitor shares one between threads without a lock).
pub use std::collections::*;
use std::cell::Cell;
use std::hash::{BuildHasherDefault, DefaultHasher, Hash};

/// SipHash with fixed keys: same iteration order in every process.
pub type FixedState = BuildHasherDefault<DefaultHasher>;
pub type HashMap<K, V> = std::collections::HashMap<K, V, FixedState>;

/// `std::collections::HashSet` subset with a modification counter. Mutating the set while an
/// iterator of it is alive is undefined behaviour for the real type; here the iterator stops and the
/// event is counted as `cause.hashset.modified-during-iteration`.
/// Items are kept in insertion order, so iteration does not depend on the hashed values (thread
/// handles and other addresses differ between processes).
pub struct HashSet<K> {
    inner: Vec<K>,
    mods: Cell<u64>,
}

unsafe impl<K: Send> Send for HashSet<K> {}
unsafe impl<K: Sync> Sync for HashSet<K> {}

impl<K> Default for HashSet<K> {
    fn default() -> Self {
        HashSet {
            inner: Vec::new(),
            mods: Cell::new(0),
        }
    }
}

impl<K: std::fmt::Debug> std::fmt::Debug for HashSet<K> {
    fn fmt(&self, f: &mut std::fmt::Formatter<'_>) -> std::fmt::Result {
        f.debug_set().entries(self.inner.iter()).finish()
    }
}

impl<K: Eq + Hash> HashSet<K> {
    pub fn new() -> Self {
        HashSet::default()
    }
    pub fn insert(&mut self, k: K) -> bool {
        crate::sim::point("hashset.insert");
        self.mods.set(self.mods.get() + 1);
        if self.inner.contains(&k) {
            return false;
        }
        self.inner.push(k);
        true
    }
    pub fn remove<Q>(&mut self, k: &Q) -> bool
    where
        K: std::borrow::Borrow<Q>,
        Q: Hash + Eq + ?Sized,
    {
        crate::sim::point("hashset.remove");
        self.mods.set(self.mods.get() + 1);
        match self.inner.iter().position(|x| x.borrow() == k) {
            Some(i) => {
                _ = self.inner.remove(i);
                true
            }
            None => false,
        }
    }
    pub fn contains<Q>(&self, k: &Q) -> bool
    where
        K: std::borrow::Borrow<Q>,
        Q: Hash + Eq + ?Sized,
    {
        crate::sim::point("hashset.contains");
        self.inner.iter().any(|x| x.borrow() == k)
    }
    pub fn len(&self) -> usize {
        self.inner.len()
    }
    pub fn is_empty(&self) -> bool {
        crate::sim::point("hashset.is_empty");
        self.inner.is_empty()
    }
    pub fn clear(&mut self) {
        self.mods.set(self.mods.get() + 1);
        self.inner.clear();
    }
    pub fn iter(&self) -> Iter<'_, K> {
        crate::sim::point("hashset.iter");
        // snapshot of references: stays valid only while the set is not modified
        Iter {
            set: self,
            mods: self.mods.get(),
            items: self.inner.iter().map(std::ptr::from_ref).collect(),
            pos: 0,
        }
    }
}

pub struct Iter<'a, K> {
    set: &'a HashSet<K>,
    mods: u64,
    items: Vec<*const K>,
    pos: usize,
}

impl<'a, K> Iterator for Iter<'a, K> {
    type Item = &'a K;
    fn next(&mut self) -> Option<&'a K> {
        if self.pos >= self.items.len() {
            return None;
        }
        crate::sim::point("hashset.iter.next");
        if self.set.mods.get() != self.mods {
            crate::sim::count("cause.hashset.modified-during-iteration");
            return None;
        }
        let p = self.items[self.pos];
        self.pos += 1;
        Some(unsafe { &*p })
    }
}

impl<'a, K: Eq + Hash> IntoIterator for &'a HashSet<K> {
    type Item = &'a K;
    type IntoIter = Iter<'a, K>;
    fn into_iter(self) -> Iter<'a, K> {
        self.iter()
    }
}
