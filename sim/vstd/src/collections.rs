//! std::collections with deterministic hashing for HashMap/HashSet.
pub use std::collections::*;
use std::hash::{BuildHasherDefault, DefaultHasher};

/// SipHash with fixed keys: same iteration order in every process.
pub type FixedState = BuildHasherDefault<DefaultHasher>;
pub type HashMap<K, V> = std::collections::HashMap<K, V, FixedState>;
pub type HashSet<K> = std::collections::HashSet<K, FixedState>;
