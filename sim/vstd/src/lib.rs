//! `vstd`: the simulator (`sim`) plus the `std` modules the generated copy of open-coroutine-core
//! is compiled against (`sync`, `thread`, `time`, `collections`).
#![allow(clippy::all, clippy::pedantic)]
pub mod collections;
pub mod sim;
pub mod sync;
pub mod thread;
pub mod time;
