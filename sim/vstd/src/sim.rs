//! vsim engine: real OS threads, exactly one holds the token at any time.
//!
//! Every shim calls `point(label)` before it touches shared state; blocking primitives call
//! `block(reason, deadline)`. A seeded strategy decides who runs next at every point; when nobody is
//! runnable the simulated clock jumps to the earliest deadline.
use std::cell::Cell;
use std::collections::{BTreeMap, VecDeque};
use std::sync::{Arc, Condvar as StdCondvar, Mutex as StdMutex, MutexGuard as StdGuard, OnceLock};

pub type Tid = usize;

/// PCT fairness bound (scheduling points one thread may run while others are runnable).
const FAIR_RUN: u64 = 4_000;
/// PCT only: a thread that has been runnable for this many scheduling points without getting the token
/// runs next (no real scheduler starves a runnable thread forever; a third thread that wakes up
/// periodically used to reset the in-a-row count above and let one spinner keep the token for good)
const AGE_LIMIT: u64 = 30_000;

/// xoshiro256** seeded through splitmix64.
#[derive(Clone, Debug)]
pub struct Rng {
    s: [u64; 4],
}

pub fn splitmix64(x: &mut u64) -> u64 {
    *x = x.wrapping_add(0x9E37_79B9_7F4A_7C15);
    let mut z = *x;
    z = (z ^ (z >> 30)).wrapping_mul(0xBF58_476D_1CE4_E5B9);
    z = (z ^ (z >> 27)).wrapping_mul(0x94D0_49BB_1331_11EB);
    z ^ (z >> 31)
}

impl Rng {
    pub fn new(seed: u64) -> Self {
        let mut x = seed;
        let s = [
            splitmix64(&mut x),
            splitmix64(&mut x),
            splitmix64(&mut x),
            splitmix64(&mut x),
        ];
        Rng { s }
    }
    /// Independent stream `k` of the same seed.
    pub fn stream(seed: u64, k: u64) -> Self {
        let mut x = seed ^ k.wrapping_mul(0xA24B_AED4_963E_E407);
        let a = splitmix64(&mut x);
        Rng::new(a ^ k)
    }
    pub fn next_u64(&mut self) -> u64 {
        let r = self.s[1].wrapping_mul(5).rotate_left(7).wrapping_mul(9);
        let t = self.s[1] << 17;
        self.s[2] ^= self.s[0];
        self.s[3] ^= self.s[1];
        self.s[1] ^= self.s[2];
        self.s[0] ^= self.s[3];
        self.s[2] ^= t;
        self.s[3] = self.s[3].rotate_left(45);
        r
    }
    /// uniform in 0..n (n > 0)
    pub fn below(&mut self, n: u64) -> u64 {
        if n <= 1 {
            return 0;
        }
        // multiply-shift; bias is irrelevant here
        ((u128::from(self.next_u64()) * u128::from(n)) >> 64) as u64
    }
    pub fn range(&mut self, lo: u64, hi_incl: u64) -> u64 {
        lo + self.below(hi_incl - lo + 1)
    }
    pub fn ppm(&mut self, rate_ppm: u32) -> bool {
        rate_ppm > 0 && self.below(1_000_000) < u64::from(rate_ppm)
    }
    pub fn pick<'a, T>(&mut self, v: &'a [T]) -> &'a T {
        &v[self.below(v.len() as u64) as usize]
    }
    pub fn chance(&mut self, num: u64, den: u64) -> bool {
        self.below(den) < num
    }
}

#[derive(Clone, Copy, Debug, PartialEq, Eq)]
pub enum Reason {
    Mutex(usize),
    Cond(usize),
    Sleep,
    Join(Tid),
    Poll(usize),
    Shard(usize, usize),
    Custom(&'static str, usize),
}

#[derive(Clone, Copy, Debug, PartialEq, Eq)]
pub enum Wake {
    None,
    Notified,
    TimedOut,
    Spurious,
    Signal,
}

#[derive(Clone, Debug)]
enum TState {
    Runnable,
    Blocked {
        reason: Reason,
        deadline: Option<u64>,
        spurious_at: Option<u64>,
    },
    Finished,
}

struct Parker {
    m: StdMutex<bool>,
    cv: StdCondvar,
}

impl Parker {
    fn new() -> Self {
        Parker {
            m: StdMutex::new(false),
            cv: StdCondvar::new(),
        }
    }
    fn park(&self) {
        let mut g = self.m.lock().unwrap_or_else(|e| e.into_inner());
        while !*g {
            g = self.cv.wait(g).unwrap_or_else(|e| e.into_inner());
        }
        *g = false;
    }
    fn unpark(&self) {
        let mut g = self.m.lock().unwrap_or_else(|e| e.into_inner());
        *g = true;
        self.cv.notify_one();
    }
}

struct Slot {
    name: String,
    st: TState,
    parker: Arc<Parker>,
    pthread: u64,
    /// scheduling point at which this thread last held the token or was not runnable
    last_ran: u64,
    sigq: VecDeque<(i32, u32)>,
    /// simulated signal mask (bit n = signal n blocked); only the queued signals honour it
    sigmask: u64,
    wake: Wake,
    prio: i64,
    wait_seq: u64,
    points: u64,
    stack: (usize, usize),
}

#[derive(Clone, Debug)]
pub enum Strategy {
    /// keep the current thread with probability 1-p, else uniform among the others
    Sticky { p_ppm: u32 },
    /// PCT-style: random priorities, `depth` change points spread over `est_len` points
    Pct { depth: u32, est_len: u64 },
    /// round robin with quantum q points
    RoundRobin { q: u32 },
}

#[derive(Clone, Debug)]
pub struct Config {
    pub seed: u64,
    pub strategy: Strategy,
    pub delta_ns: u64,
    pub start_ns: u64,
    pub max_points: u64,
    pub max_sim_ns: u64,
    /// probability per point (ppm) that the running thread is stalled for 1..stall_max_ns
    pub stall_ppm: u32,
    pub stall_max_ns: u64,
    /// probability per timed/untimed condvar wait (ppm) of a spurious wake-up
    pub spurious_ppm: u32,
    /// asynchronous signals are delivered after 0..=sig_delay_max further points of the target
    pub sig_delay_max: u32,
    pub record: bool,
    /// strict replay of a recorded switch trace
    pub replay: Option<Vec<(u64, u32)>>,
}

impl Default for Config {
    fn default() -> Self {
        Config {
            seed: 0,
            strategy: Strategy::Sticky { p_ppm: 50_000 },
            delta_ns: 1_000,
            start_ns: 1_700_000_000_000_000_000,
            max_points: 3_000_000,
            max_sim_ns: 600_000_000_000,
            stall_ppm: 0,
            stall_max_ns: 20_000_000,
            spurious_ppm: 0,
            sig_delay_max: 0,
            record: false,
            replay: None,
        }
    }
}

#[derive(Clone, Debug)]
pub struct LogEv {
    pub seq: u64,
    pub tid: u32,
    pub now: u64,
    pub label: &'static str,
}

#[derive(Clone, Copy, Debug, PartialEq, Eq)]
pub enum Abort {
    Deadlock,
    PointBudget,
    TimeBudget,
    ReplayDiverged,
    Internal,
    ForeignStack,
}

pub type AbortHandler = fn(Abort, String) -> !;

#[derive(Clone, Copy)]
pub enum SigHandlerFn {
    Plain(extern "C" fn(libc::c_int)),
    Info(extern "C" fn(libc::c_int, *mut libc::siginfo_t, *mut libc::c_void)),
}

struct State {
    active: bool,
    cfg: Config,
    threads: Vec<Slot>,
    current: Tid,
    now_ns: u64,
    seq: u64,
    points: u64,
    switches: u64,
    rng_sched: Rng,
    rng_fault: Rng,
    rng_ids: Rng,
    log_hash: u64,
    sched_hash: u64,
    log: Vec<LogEv>,
    trace: Vec<(u64, u32)>,
    replay_idx: usize,
    counters: BTreeMap<&'static str, u64>,
    knobs: BTreeMap<&'static str, u64>,
    handlers: BTreeMap<i32, (SigHandlerFn, u64, bool)>,
    wait_seq: u64,
    rr_left: u32,
    pct_changes: Vec<u64>,
    pct_low: i64,
    pct_run: u64,
    io_epoch: u64,
    abort: Option<AbortHandler>,
    idle_hook: Option<fn()>,
}

static SIM: OnceLock<StdMutex<State>> = OnceLock::new();

thread_local! {
    static TID: Cell<Option<Tid>> = const { Cell::new(None) };
}

fn sim() -> &'static StdMutex<State> {
    SIM.get_or_init(|| {
        StdMutex::new(State {
            active: false,
            cfg: Config::default(),
            threads: Vec::new(),
            current: 0,
            now_ns: Config::default().start_ns,
            seq: 0,
            points: 0,
            switches: 0,
            rng_sched: Rng::new(0),
            rng_fault: Rng::new(0),
            rng_ids: Rng::new(0),
            log_hash: 0xcbf2_9ce4_8422_2325,
            sched_hash: 0xcbf2_9ce4_8422_2325,
            log: Vec::new(),
            trace: Vec::new(),
            replay_idx: 0,
            counters: BTreeMap::new(),
            knobs: BTreeMap::new(),
            handlers: BTreeMap::new(),
            wait_seq: 0,
            rr_left: 0,
            pct_changes: Vec::new(),
            pct_low: -1,
            pct_run: 0,
            io_epoch: 0,
            abort: None,
            idle_hook: None,
        })
    })
}

fn lock() -> StdGuard<'static, State> {
    sim().lock().unwrap_or_else(|e| e.into_inner())
}

fn fnv(h: u64, x: u64) -> u64 {
    let mut h = h;
    for i in 0..8 {
        h ^= (x >> (i * 8)) & 0xff;
        h = h.wrapping_mul(0x0000_0100_0000_01B3);
    }
    h
}

fn label_hash(s: &str) -> u64 {
    let mut h = 0xcbf2_9ce4_8422_2325u64;
    for b in s.as_bytes() {
        h ^= u64::from(*b);
        h = h.wrapping_mul(0x0000_0100_0000_01B3);
    }
    h
}

fn do_abort(mut st: StdGuard<'static, State>, kind: Abort, msg: String) -> ! {
    let h = st.abort;
    st.active = false;
    drop(st);
    if let Some(h) = h {
        h(kind, msg)
    }
    eprintln!("vsim abort {kind:?}: {msg}");
    unsafe { libc::_exit(70) }
}

impl State {
    fn runnable(&self) -> Vec<Tid> {
        self.threads
            .iter()
            .enumerate()
            .filter(|(_, s)| matches!(s.st, TState::Runnable))
            .map(|(i, _)| i)
            .collect()
    }

    fn expire_timers(&mut self) {
        let now = self.now_ns;
        for s in &mut self.threads {
            if let TState::Blocked {
                deadline,
                spurious_at,
                ..
            } = s.st
            {
                if let Some(d) = deadline {
                    if d <= now {
                        s.st = TState::Runnable;
                        s.wake = Wake::TimedOut;
                        continue;
                    }
                }
                if let Some(d) = spurious_at {
                    if d <= now {
                        s.st = TState::Runnable;
                        s.wake = Wake::Spurious;
                    }
                }
            }
        }
    }

    fn earliest_deadline(&self) -> Option<u64> {
        let mut best: Option<u64> = None;
        for s in &self.threads {
            if let TState::Blocked {
                deadline,
                spurious_at,
                ..
            } = s.st
            {
                for d in [deadline, spurious_at].into_iter().flatten() {
                    best = Some(best.map_or(d, |b| b.min(d)));
                }
            }
        }
        best
    }

    fn describe_blocked(&self) -> String {
        let mut out = String::new();
        for (i, s) in self.threads.iter().enumerate() {
            out.push_str(&format!("[t{i} {} {:?}] ", s.name, s.st));
        }
        out
    }

    /// Pick the next thread. `cur` is Some(tid) if the caller is still runnable.
    /// Returns None when nobody is runnable.
    fn choose(&mut self, cur: Option<Tid>) -> Option<Tid> {
        let runnable = self.runnable();
        if runnable.is_empty() {
            return None;
        }
        if let Some(tr) = &self.cfg.replay {
            let next = if self.replay_idx < tr.len() && tr[self.replay_idx].0 == self.seq {
                let t = tr[self.replay_idx].1 as usize;
                self.replay_idx += 1;
                t
            } else if let Some(c) = cur {
                c
            } else {
                usize::MAX
            };
            if !runnable.contains(&next) {
                return Some(usize::MAX); // diverged; caller aborts
            }
            return Some(next);
        }
        let next = match self.cfg.strategy.clone() {
            Strategy::Sticky { p_ppm } => match cur {
                Some(c) if runnable.len() == 1 || !self.rng_sched.ppm(p_ppm) => c,
                Some(c) => {
                    let others: Vec<Tid> = runnable.iter().copied().filter(|t| *t != c).collect();
                    *self.rng_sched.pick(&others)
                }
                None => *self.rng_sched.pick(&runnable),
            },
            Strategy::Pct { .. } => {
                if let Some(c) = cur {
                    // fairness: no real scheduler starves a runnable thread forever; a thread that
                    // has run FAIR_RUN points in a row while others were runnable is demoted
                    // (needed because the code under test spin-waits)
                    self.pct_run += 1;
                    let starving = runnable.len() > 1 && self.pct_run > FAIR_RUN;
                    if self.pct_changes.contains(&self.points) || starving {
                        self.pct_low -= 1;
                        self.threads[c].prio = self.pct_low;
                        self.pct_run = 0;
                    }
                } else {
                    self.pct_run = 0;
                }
                // blocked threads are not starving
                let now_pt = self.points;
                for (i, t) in self.threads.iter_mut().enumerate() {
                    if !runnable.contains(&i) {
                        t.last_ran = now_pt;
                    }
                }
                let mut best = runnable[0];
                for t in &runnable {
                    if self.threads[*t].prio > self.threads[best].prio {
                        best = *t;
                    }
                }
                // aging: the longest-starved runnable thread goes first once it exceeds the limit
                if let Some(old) = runnable.iter().copied().filter(|t| now_pt.saturating_sub(self.threads[*t].last_ran) > AGE_LIMIT).min_by_key(|t| self.threads[*t].last_ran) {
                    best = old;
                }
                self.threads[best].last_ran = now_pt;
                best
            }
            Strategy::RoundRobin { q } => match cur {
                Some(c) if self.rr_left > 0 => {
                    self.rr_left -= 1;
                    c
                }
                _ => {
                    self.rr_left = q;
                    let c = cur.unwrap_or(self.current);
                    *runnable.iter().find(|t| **t > c).unwrap_or(&runnable[0])
                }
            },
        };
        Some(next)
    }

    fn note_switch(&mut self, to: Tid, label: &'static str) {
        self.switches += 1;
        self.trace.push((self.seq, to as u32));
        self.sched_hash = fnv(fnv(self.sched_hash, to as u64), label_hash(label));
    }
}

fn park_until_token(tid: Tid, parker: &Arc<Parker>) {
    loop {
        parker.park();
        let st = lock();
        if !st.active || st.current == tid {
            return;
        }
    }
}

/// A scheduling point. Called by every shim before it touches shared state.
pub fn point(label: &'static str) {
    let Some(tid) = TID.try_with(Cell::get).ok().flatten() else {
        return;
    };
    let mut st = lock();
    if !st.active {
        return;
    }
    debug_assert_eq!(st.current, tid, "point() by a thread without the token");
    {
        // memory-safety tripwire: a thread must never execute on another thread's OS stack (that is
        // what a context switch through a stale coroutine/suspender pointer does)
        let sp = std::ptr::from_ref(&st) as usize;
        for (i, t) in st.threads.iter().enumerate() {
            if i != tid && t.stack.1 != 0 && sp >= t.stack.0 && sp < t.stack.1 && !matches!(t.st, TState::Finished) {
                let msg = format!("thread t{tid} ({}) is executing on the OS stack of thread t{i} ({}) at {label}", st.threads[tid].name, t.name);
                do_abort(st, Abort::ForeignStack, msg);
            }
        }
    }
    st.seq += 1;
    st.points += 1;
    st.threads[tid].points += 1;
    st.now_ns = st.now_ns.saturating_add(st.cfg.delta_ns);
    if st.cfg.stall_ppm > 0 {
        let r = st.cfg.stall_ppm;
        if st.rng_fault.ppm(r) {
            let m = st.cfg.stall_max_ns;
            let d = st.rng_fault.range(1_000_000, m.max(1_000_000));
            st.now_ns = st.now_ns.saturating_add(d);
            *st.counters.entry("fault.stall").or_insert(0) += 1;
        }
    }
    st.log_hash = fnv(fnv(st.log_hash, tid as u64), label_hash(label));
    if st.cfg.record && st.log.len() < 4_000_000 {
        let ev = LogEv {
            seq: st.seq,
            tid: tid as u32,
            now: st.now_ns,
            label,
        };
        st.log.push(ev);
    }
    if st.points > st.cfg.max_points {
        let d = st.describe_blocked();
        do_abort(st, Abort::PointBudget, format!("point budget exhausted at {label}: {d}"));
    }
    if st.now_ns.saturating_sub(st.cfg.start_ns) > st.cfg.max_sim_ns {
        let d = st.describe_blocked();
        do_abort(st, Abort::TimeBudget, format!("simulated time budget exhausted at {label}: {d}"));
    }
    st.expire_timers();
    let next = st.choose(Some(tid)).unwrap_or(tid);
    if next == usize::MAX {
        let s = st.seq;
        do_abort(st, Abort::ReplayDiverged, format!("replay diverged at seq {s} ({label})"));
    }
    if next != tid {
        st.note_switch(next, label);
        st.current = next;
        let p = st.threads[next].parker.clone();
        let me = st.threads[tid].parker.clone();
        drop(st);
        p.unpark();
        park_until_token(tid, &me);
    } else {
        drop(st);
    }
    deliver_signals(tid);
}

fn deliver_signals(tid: Tid) {
    loop {
        let (sig, h, saved) = {
            let mut st = lock();
            if !st.active {
                return;
            }
            let mask = st.threads[tid].sigmask;
            let q = &mut st.threads[tid].sigq;
            if q.is_empty() {
                return;
            }
            for e in q.iter_mut() {
                if e.1 > 0 {
                    e.1 -= 1;
                }
            }
            // a blocked signal stays pending
            let Some(pos) = q.iter().position(|e| e.1 == 0 && (mask >> (e.0 as u64 & 63)) & 1 == 0) else {
                if q.iter().any(|e| e.1 == 0) {
                    *st.counters.entry("signal.held-by-mask").or_insert(0) += 1;
                }
                return;
            };
            let (sig, _) = q.remove(pos).expect("pos");
            let h = st.handlers.get(&sig).copied();
            *st.counters.entry("signal.delivered").or_insert(0) += 1;
            // like the kernel: while the handler runs, the signal itself (unless SA_NODEFER) and the
            // handler's sa_mask are blocked; the old mask is restored when the handler returns
            let saved = mask;
            if let Some((_, sa_mask, nodefer)) = h {
                let mut m = mask | sa_mask;
                if !nodefer {
                    m |= 1u64 << (sig as u64 & 63);
                }
                st.threads[tid].sigmask = m;
                if std::env::var("VSIM_TRACE_MASK").is_ok() {
                    eprintln!("[mask] t{tid} handler-entry sig {sig} mask {m:#x} saved {saved:#x} at {}us", (st.now_ns % 1_000_000_000_000) / 1000);
                }
            }
            (sig, h, saved)
        };
        match h {
            Some((SigHandlerFn::Plain(f), ..)) => f(sig),
            Some((SigHandlerFn::Info(f), ..)) => f(sig, std::ptr::null_mut(), std::ptr::null_mut()),
            None => {}
        }
        if h.is_some() {
            // sigreturn: the mask saved in the signal frame goes to whichever thread executes the
            // return (a handler that switched coroutines may come back on another thread, much later)
            let cur = TID.try_with(Cell::get).ok().flatten();
            if let Some(cur) = cur {
                let mut st = lock();
                if st.active && cur < st.threads.len() {
                    st.threads[cur].sigmask = saved;
                    if std::env::var("VSIM_TRACE_MASK").is_ok() {
                        eprintln!("[mask] t{cur} handler-return (delivered on t{tid}) restore {saved:#x} at {}us", (st.now_ns % 1_000_000_000_000) / 1000);
                    }
                }
            }
            if cur != Some(tid) {
                // the handler came back on another thread (it had switched coroutines): this is no
                // longer `tid`'s delivery loop
                return;
            }
        }
    }
}

/// Simulated signal mask of the calling thread (bit n = signal n blocked).
pub fn sigmask_get() -> u64 {
    let Some(tid) = TID.try_with(Cell::get).ok().flatten() else { return 0 };
    let st = lock();
    st.threads.get(tid).map_or(0, |t| t.sigmask)
}

pub fn sigmask_set(mask: u64) {
    let Some(tid) = TID.try_with(Cell::get).ok().flatten() else { return };
    if std::env::var("VSIM_TRACE_MASK").is_ok() {
        eprintln!("[mask] t{tid} set {mask:#x} at {}us", (now_ns() % 1_000_000_000_000) / 1000);
    }
    let mut st = lock();
    if let Some(t) = st.threads.get_mut(tid) {
        t.sigmask = mask;
    }
}

/// Block the calling thread until woken, or until `deadline` (absolute simulated ns).
pub fn block(reason: Reason, deadline: Option<u64>) -> Wake {
    let Some(tid) = TID.try_with(Cell::get).ok().flatten() else {
        return Wake::None;
    };
    loop {
        let mut st = lock();
        if !st.active {
            return Wake::None;
        }
        st.seq += 1;
        let mut spurious_at = None;
        if matches!(reason, Reason::Cond(_)) && st.cfg.spurious_ppm > 0 {
            let r = st.cfg.spurious_ppm;
            if st.rng_fault.ppm(r) {
                let d = st.rng_fault.range(1_000, 2_000_000);
                spurious_at = Some(st.now_ns.saturating_add(d));
            }
        }
        st.wait_seq += 1;
        let ws = st.wait_seq;
        let s = &mut st.threads[tid];
        s.wake = Wake::None;
        s.wait_seq = ws;
        s.st = TState::Blocked {
            reason,
            deadline,
            spurious_at,
        };
        st.expire_timers();
        hand_off(st, tid, "block");
        // we hold the token again
        let w = {
            let mut st = lock();
            if !st.active {
                return Wake::None;
            }
            let w = st.threads[tid].wake;
            st.threads[tid].wake = Wake::None;
            if w == Wake::Spurious {
                *st.counters.entry("fault.spurious_wake").or_insert(0) += 1;
            }
            w
        };
        deliver_signals(tid);
        // callers re-check their own condition and block again if needed
        return w;
    }
}

/// The caller (tid) is not runnable any more: pass the token on, advancing the clock if needed,
/// then wait until the token comes back.
fn hand_off(mut st: StdGuard<'static, State>, tid: Tid, label: &'static str) {
    loop {
        match st.choose(None) {
            Some(usize::MAX) => {
                let s = st.seq;
                do_abort(st, Abort::ReplayDiverged, format!("replay diverged at seq {s} (block)"));
            }
            Some(next) => {
                st.note_switch(next, label);
                if next == tid {
                    // our own timer fired already
                    st.current = tid;
                    return;
                }
                st.current = next;
                let p = st.threads[next].parker.clone();
                let me = st.threads[tid].parker.clone();
                let finished = matches!(st.threads[tid].st, TState::Finished);
                drop(st);
                p.unpark();
                if !finished {
                    park_until_token(tid, &me);
                }
                return;
            }
            None => {
                if let Some(h) = st.idle_hook {
                    // let the harness notice real-kernel readiness before time moves on
                    let before = st.io_epoch;
                    drop(st);
                    h();
                    st = lock();
                    if st.io_epoch != before && !st.runnable().is_empty() {
                        continue;
                    }
                }
                match st.earliest_deadline() {
                    Some(d) => {
                        if d > st.now_ns {
                            st.now_ns = d;
                        }
                        if st.now_ns.saturating_sub(st.cfg.start_ns) > st.cfg.max_sim_ns {
                            let d = st.describe_blocked();
                            do_abort(st, Abort::TimeBudget, format!("simulated time budget exhausted while idle: {d}"));
                        }
                        st.expire_timers();
                    }
                    None => {
                        let d = st.describe_blocked();
                        do_abort(st, Abort::Deadlock, d);
                    }
                }
            }
        }
    }
}

/// Make every thread blocked on `reason` runnable (mutex release, notify_all, thread exit).
pub fn wake_all(reason: Reason) {
    let mut st = lock();
    if !st.active {
        return;
    }
    for s in &mut st.threads {
        if let TState::Blocked { reason: r, .. } = s.st {
            if r == reason {
                s.st = TState::Runnable;
                s.wake = Wake::Notified;
            }
        }
    }
}

/// Make the longest-waiting thread blocked on `reason` runnable. Returns whether one was found.
pub fn wake_one(reason: Reason) -> bool {
    let mut st = lock();
    if !st.active {
        return false;
    }
    let mut best: Option<usize> = None;
    for (i, s) in st.threads.iter().enumerate() {
        if let TState::Blocked { reason: r, .. } = s.st {
            if r == reason && best.is_none_or(|b| s.wait_seq < st.threads[b].wait_seq) {
                best = Some(i);
            }
        }
    }
    if let Some(i) = best {
        st.threads[i].st = TState::Runnable;
        st.threads[i].wake = Wake::Notified;
        true
    } else {
        false
    }
}

/// Wake every thread blocked in a poller (readiness may have changed).
pub fn io_poke() {
    let mut st = lock();
    if !st.active {
        return;
    }
    st.io_epoch += 1;
    for s in &mut st.threads {
        if let TState::Blocked {
            reason: Reason::Poll(_),
            ..
        } = s.st
        {
            s.st = TState::Runnable;
            s.wake = Wake::Notified;
        }
    }
}

/// Wake the threads blocked in the given poller ids.
pub fn io_poke_pollers(ids: &[usize]) {
    let mut st = lock();
    if !st.active {
        return;
    }
    st.io_epoch += 1;
    for s in &mut st.threads {
        if let TState::Blocked {
            reason: Reason::Poll(id),
            ..
        } = s.st
        {
            if ids.contains(&id) {
                s.st = TState::Runnable;
                s.wake = Wake::Notified;
            }
        }
    }
}

/// Poller ids of threads currently blocked in a poller.
pub fn blocked_pollers() -> Vec<usize> {
    let st = lock();
    st.threads
        .iter()
        .filter_map(|s| match s.st {
            TState::Blocked {
                reason: Reason::Poll(id),
                ..
            } => Some(id),
            _ => None,
        })
        .collect()
}

pub fn set_idle_hook(h: fn()) {
    lock().idle_hook = Some(h);
}

// ---------------------------------------------------------------------------------------------
// threads

pub(crate) struct Spawned {
    pub tid: Tid,
}

/// Register a new simulated thread (called by the parent, which holds the token).
pub(crate) fn register_thread(name: String) -> Spawned {
    let mut st = lock();
    let prio = if st.active {
        (st.rng_sched.next_u64() >> 2) as i64
    } else {
        0
    };
    st.threads.push(Slot {
        name,
        st: TState::Runnable,
        parker: Arc::new(Parker::new()),
        pthread: 0,
        last_ran: 0,
        sigq: VecDeque::new(),
        sigmask: 0,
        wake: Wake::None,
        prio,
        wait_seq: 0,
        points: 0,
        stack: (0, 0),
    });
    Spawned {
        tid: st.threads.len() - 1,
    }
}

/// First thing a new simulated thread does on its own OS thread.
fn own_stack_range() -> (usize, usize) {
    unsafe {
        let mut attr: libc::pthread_attr_t = std::mem::zeroed();
        if libc::pthread_getattr_np(libc::pthread_self(), &raw mut attr) != 0 {
            return (0, 0);
        }
        let mut addr: *mut libc::c_void = std::ptr::null_mut();
        let mut size: libc::size_t = 0;
        let r = libc::pthread_attr_getstack(&raw const attr, &raw mut addr, &raw mut size);
        _ = libc::pthread_attr_destroy(&raw mut attr);
        if r != 0 {
            return (0, 0);
        }
        (addr as usize, addr as usize + size)
    }
}

pub(crate) fn thread_start(tid: Tid) {
    TID.with(|t| t.set(Some(tid)));
    let me = {
        let mut st = lock();
        st.threads[tid].pthread = unsafe { libc::pthread_self() } as u64;
        st.threads[tid].stack = own_stack_range();
        st.threads[tid].parker.clone()
    };
    park_until_token(tid, &me);
}

/// Last thing a simulated thread does.
pub(crate) fn thread_finish(tid: Tid) {
    let mut st = lock();
    if !st.active {
        return;
    }
    st.seq += 1;
    st.threads[tid].st = TState::Finished;
    for s in &mut st.threads {
        if let TState::Blocked {
            reason: Reason::Join(t),
            ..
        } = s.st
        {
            if t == tid {
                s.st = TState::Runnable;
                s.wake = Wake::Notified;
            }
        }
    }
    st.expire_timers();
    hand_off(st, tid, "thread.exit");
}

pub(crate) fn is_finished(tid: Tid) -> bool {
    matches!(lock().threads[tid].st, TState::Finished)
}

pub fn current_tid() -> Option<Tid> {
    TID.try_with(Cell::get).ok().flatten()
}

pub fn is_active() -> bool {
    current_tid().is_some() && lock().active
}

/// Make one specific thread runnable if it is blocked.
pub fn wake_tid(tid: Tid) {
    let mut st = lock();
    if !st.active {
        return;
    }
    if let TState::Blocked { .. } = st.threads[tid].st {
        st.threads[tid].st = TState::Runnable;
        st.threads[tid].wake = Wake::Notified;
    }
}

// ---------------------------------------------------------------------------------------------
// clock, randomness, knobs, counters

pub fn now_ns() -> u64 {
    lock().now_ns
}

/// Simulated CPU work of the caller, in slices. The caller computes on a core of its own: while it
/// is busy the other threads run (and the clock jumps if nobody else can), so N threads computing
/// for d all finish after d, as on a machine with enough cores - not after N*d as they would if
/// every thread's work were charged to the one global clock. A signal queued for the caller is
/// delivered at the next slice boundary.
pub fn cpu_work(ns: u64, slice_ns: u64) {
    let mut left = ns;
    while left > 0 {
        let d = left.min(slice_ns.max(1));
        left -= d;
        point("cpu");
        if !is_active() {
            return;
        }
        let deadline = now_ns().saturating_add(d);
        while is_active() && now_ns() < deadline {
            _ = block(Reason::Sleep, Some(deadline));
        }
    }
}

/// Move the wall clock forward without running anybody (clock-jump fault / harness time control).
pub fn advance_clock(ns: u64) {
    let mut st = lock();
    st.now_ns = st.now_ns.saturating_add(ns);
    st.expire_timers();
}

pub fn set_clock(ns: u64) {
    let mut st = lock();
    st.now_ns = ns;
    st.expire_timers();
}

pub fn seq() -> u64 {
    lock().seq
}

pub fn fault_rng<R>(f: impl FnOnce(&mut Rng) -> R) -> R {
    f(&mut lock().rng_fault)
}

pub fn id_rng<R>(f: impl FnOnce(&mut Rng) -> R) -> R {
    f(&mut lock().rng_ids)
}

pub fn sched_rng<R>(f: impl FnOnce(&mut Rng) -> R) -> R {
    f(&mut lock().rng_sched)
}

pub fn set_knob(name: &'static str, v: u64) {
    _ = lock().knobs.insert(name, v);
}

pub fn knob(name: &'static str, default: u64) -> u64 {
    lock().knobs.get(name).copied().unwrap_or(default)
}

pub fn count(name: &'static str) {
    *lock().counters.entry(name).or_insert(0) += 1;
}

pub fn count_n(name: &'static str, n: u64) {
    *lock().counters.entry(name).or_insert(0) += n;
}

pub fn counter(name: &'static str) -> u64 {
    lock().counters.get(name).copied().unwrap_or(0)
}

// ---------------------------------------------------------------------------------------------
// signals

pub fn set_signal_handler(sig: i32, h: SigHandlerFn, sa_mask: u64, nodefer: bool) {
    _ = lock().handlers.insert(sig, (h, sa_mask, nodefer));
}

thread_local! {
    static SENT_BY_ME: Cell<u64> = const { Cell::new(0) };
}

/// Signals queued so far by the calling thread.
pub fn signals_sent_by_me() -> u64 {
    SENT_BY_ME.with(Cell::get)
}

/// Queue an asynchronous signal for the simulated thread whose pthread id is `pthread`.
pub fn queue_signal(pthread: u64, sig: i32) -> bool {
    let mut st = lock();
    if !st.active {
        return false;
    }
    let delay = if st.cfg.sig_delay_max > 0 {
        let m = u64::from(st.cfg.sig_delay_max);
        st.rng_fault.below(m + 1) as u32
    } else {
        0
    };
    let Some(i) = st
        .threads
        .iter()
        .position(|s| s.pthread == pthread && !matches!(s.st, TState::Finished))
    else {
        return false;
    };
    st.threads[i].sigq.push_back((sig, delay));
    *st.counters.entry("signal.sent").or_insert(0) += 1;
    SENT_BY_ME.with(|c| c.set(c.get() + 1));
    if delay > 0 {
        *st.counters.entry("fault.late_signal").or_insert(0) += 1;
    }
    let deliverable = (st.threads[i].sigmask >> (sig as u64 & 63)) & 1 == 0;
    if let TState::Blocked { .. } = st.threads[i].st {
        if deliverable {
            st.threads[i].st = TState::Runnable;
            st.threads[i].wake = Wake::Signal;
        }
    }
    true
}

// ---------------------------------------------------------------------------------------------
// run control

pub struct Report {
    pub points: u64,
    pub switches: u64,
    pub sim_ns: u64,
    pub log_hash: u64,
    pub sched_hash: u64,
    pub threads: usize,
    pub counters: BTreeMap<&'static str, u64>,
    pub trace: Vec<(u64, u32)>,
    pub log: Vec<LogEv>,
}

pub fn set_abort_handler(h: AbortHandler) {
    lock().abort = Some(h);
}

/// Start a simulation on the calling thread (it becomes simulated thread 0).
pub fn start(cfg: Config) {
    let mut st = lock();
    assert!(!st.active, "one simulation at a time");
    st.rng_sched = Rng::stream(cfg.seed, 1);
    st.rng_fault = Rng::stream(cfg.seed, 2);
    st.rng_ids = Rng::stream(cfg.seed, 3);
    st.now_ns = cfg.start_ns;
    st.threads.clear();
    st.seq = 0;
    st.points = 0;
    st.switches = 0;
    st.log_hash = 0xcbf2_9ce4_8422_2325;
    st.sched_hash = 0xcbf2_9ce4_8422_2325;
    st.log.clear();
    st.trace.clear();
    st.replay_idx = 0;
    st.counters.clear();
    st.handlers.clear();
    st.wait_seq = 0;
    st.rr_left = 0;
    st.pct_changes.clear();
    st.pct_low = -1;
    st.pct_run = 0;
    st.io_epoch = 0;
    let prio = (st.rng_sched.next_u64() >> 2) as i64;
    st.threads.push(Slot {
        name: "main".into(),
        st: TState::Runnable,
        parker: Arc::new(Parker::new()),
        pthread: unsafe { libc::pthread_self() } as u64,
        last_ran: 0,
        sigq: VecDeque::new(),
        sigmask: 0,
        wake: Wake::None,
        prio,
        wait_seq: 0,
        points: 0,
        stack: (0, 0),
    });
    if let Strategy::Pct { depth, est_len } = cfg.strategy {
        let mut v = Vec::new();
        for _ in 0..depth {
            v.push(1 + st.rng_sched.below(est_len.max(1)));
        }
        st.pct_changes = v;
    }
    if let Strategy::RoundRobin { q } = cfg.strategy {
        st.rr_left = q;
    }
    st.cfg = cfg;
    st.current = 0;
    st.active = true;
    drop(st);
    _ = aux_drain();
    aux_enable(false);
    OVERLAP.lock().unwrap_or_else(|e| e.into_inner()).clear();
    TID.with(|t| t.set(Some(0)));
}

/// Forget the knobs of the previous run (several runs may share one process).
pub fn clear_knobs() {
    lock().knobs.clear();
}

/// Snapshot of the run so far (does not stop the simulation).
pub fn report() -> Report {
    let st = lock();
    Report {
        points: st.points,
        switches: st.switches,
        sim_ns: st.now_ns.saturating_sub(st.cfg.start_ns),
        log_hash: st.log_hash,
        sched_hash: st.sched_hash,
        threads: st.threads.len(),
        counters: st.counters.clone(),
        trace: st.trace.clone(),
        log: st.log.clone(),
    }
}

/// Stop scheduling: every shim becomes a no-op. Parked threads stay parked; the process is
/// expected to exit soon.
pub fn stop() {
    lock().active = false;
}

pub fn thread_names() -> Vec<String> {
    lock().threads.iter().map(|s| s.name.clone()).collect()
}

// ---------------------------------------------------------------------------------------------
// auxiliary container-level event log (filled by the st3 / injector shims when enabled)

#[derive(Clone, Copy, Debug, PartialEq, Eq)]
pub struct AuxEv {
    pub kind: &'static str,
    pub a: usize,
    pub b: usize,
    pub n: usize,
}

static AUX_ON: std::sync::atomic::AtomicBool = std::sync::atomic::AtomicBool::new(false);
static AUX: StdMutex<Vec<AuxEv>> = StdMutex::new(Vec::new());

pub fn aux_enable(on: bool) {
    AUX_ON.store(on, std::sync::atomic::Ordering::SeqCst);
}

pub fn aux(kind: &'static str, a: usize, b: usize, n: usize) {
    if AUX_ON.load(std::sync::atomic::Ordering::Relaxed) {
        AUX.lock().unwrap_or_else(|e| e.into_inner()).push(AuxEv { kind, a, b, n });
    }
}

pub fn aux_drain() -> Vec<AuxEv> {
    std::mem::take(&mut *AUX.lock().unwrap_or_else(|e| e.into_inner()))
}

/// Scheduling points executed so far by one thread.
pub fn thread_points(tid: Tid) -> u64 {
    lock().threads.get(tid).map_or(0, |s| s.points)
}

pub fn my_points() -> u64 {
    current_tid().map_or(0, thread_points)
}

// ---------------------------------------------------------------------------------------------
// root-cause probe: two threads inside a single-owner operation at the same time

static OVERLAP: StdMutex<Vec<(usize, Tid)>> = StdMutex::new(Vec::new());

/// Marks "thread T is inside the single-owner operation on object `addr`"; if another thread is
/// already inside when one enters, the named counter is incremented (a contract breach that the
/// real, uninstrumented code would hit as a data race).
pub struct OverlapGuard {
    addr: usize,
    tid: Tid,
}

impl OverlapGuard {
    pub fn enter(addr: usize, counter: &'static str) -> Self {
        let tid = current_tid().unwrap_or(usize::MAX);
        let mut g = OVERLAP.lock().unwrap_or_else(|e| e.into_inner());
        if g.iter().any(|(a, t)| *a == addr && *t != tid) {
            drop(g);
            count(counter);
            g = OVERLAP.lock().unwrap_or_else(|e| e.into_inner());
        }
        g.push((addr, tid));
        OverlapGuard { addr, tid }
    }
}

impl Drop for OverlapGuard {
    fn drop(&mut self) {
        let mut g = OVERLAP.lock().unwrap_or_else(|e| e.into_inner());
        if let Some(p) = g.iter().position(|(a, t)| *a == self.addr && *t == self.tid) {
            _ = g.swap_remove(p);
        }
    }
}

// ---------------------------------------------------------------------------------------------
// unhandled synchronous fault (SIGSEGV/SIGBUS that the code under test did not recover from)

static FATAL_HOOK: StdMutex<Option<fn(i32, usize, usize) -> !>> = StdMutex::new(None);

pub fn set_fatal_signal_hook(h: fn(i32, usize, usize) -> !) {
    *FATAL_HOOK.lock().unwrap_or_else(|e| e.into_inner()) = Some(h);
}

/// Called from the SIGSEGV/SIGBUS wrapper when the inner handler left the faulting context as is.
pub fn fatal_signal(sig: i32, pc: usize, addr: usize) -> ! {
    let h = FATAL_HOOK.try_lock().ok().and_then(|g| *g);
    if let Some(h) = h {
        h(sig, pc, addr)
    }
    unsafe { libc::_exit(139) }
}
