//! std::thread with simulated spawn/sleep/join.
use crate::sim::{self, Reason};
use std::sync::{Arc, Mutex as StdMutex};
pub use std::thread::{current, panicking, Thread, ThreadId};
use std::time::Duration;

type Packet<T> = Arc<StdMutex<Option<std::thread::Result<T>>>>;

pub struct JoinHandle<T> {
    tid: Option<sim::Tid>,
    packet: Packet<T>,
    native: Option<std::thread::JoinHandle<()>>,
}

impl<T> std::fmt::Debug for JoinHandle<T> {
    fn fmt(&self, f: &mut std::fmt::Formatter<'_>) -> std::fmt::Result {
        write!(f, "JoinHandle(t{:?})", self.tid)
    }
}

impl<T> JoinHandle<T> {
    pub fn join(mut self) -> std::thread::Result<T> {
        if let Some(tid) = self.tid {
            sim::point("thread.join");
            while sim::is_active() && !sim::is_finished(tid) {
                _ = sim::block(Reason::Join(tid), None);
            }
            if !sim::is_active() {
                if let Some(n) = self.native.take() {
                    drop(n);
                }
            }
        } else if let Some(n) = self.native.take() {
            _ = n.join();
        }
        let r = self.packet.lock().unwrap_or_else(|e| e.into_inner()).take();
        r.unwrap_or_else(|| Err(Box::new("thread result missing")))
    }
    pub fn is_finished(&self) -> bool {
        self.tid.is_some_and(sim::is_finished)
    }
    pub fn sim_tid(&self) -> Option<sim::Tid> {
        self.tid
    }
}

#[derive(Debug, Default)]
pub struct Builder {
    name: Option<String>,
    stack_size: Option<usize>,
}

impl Builder {
    pub fn new() -> Self {
        Builder::default()
    }
    #[must_use]
    pub fn name(mut self, name: String) -> Self {
        self.name = Some(name);
        self
    }
    #[must_use]
    pub fn stack_size(mut self, size: usize) -> Self {
        self.stack_size = Some(size);
        self
    }
    pub fn spawn<F, T>(self, f: F) -> std::io::Result<JoinHandle<T>>
    where
        F: FnOnce() -> T + Send + 'static,
        T: Send + 'static,
    {
        let packet: Packet<T> = Arc::new(StdMutex::new(None));
        let p2 = packet.clone();
        let mut b = std::thread::Builder::new();
        if let Some(n) = &self.name {
            b = b.name(n.clone());
        }
        if let Some(s) = self.stack_size {
            b = b.stack_size(s);
        }
        if !sim::is_active() {
            let native = b.spawn(move || {
                let r = std::panic::catch_unwind(std::panic::AssertUnwindSafe(f));
                *p2.lock().unwrap_or_else(|e| e.into_inner()) = Some(r);
            })?;
            return Ok(JoinHandle {
                tid: None,
                packet,
                native: Some(native),
            });
        }
        sim::point("thread.spawn");
        let sp = sim::register_thread(self.name.clone().unwrap_or_else(|| "unnamed".into()));
        let tid = sp.tid;
        let native = b.spawn(move || {
            sim::thread_start(tid);
            let r = std::panic::catch_unwind(std::panic::AssertUnwindSafe(f));
            *p2.lock().unwrap_or_else(|e| e.into_inner()) = Some(r);
            sim::thread_finish(tid);
        })?;
        Ok(JoinHandle {
            tid: Some(tid),
            packet,
            native: Some(native),
        })
    }
}

pub fn spawn<F, T>(f: F) -> JoinHandle<T>
where
    F: FnOnce() -> T + Send + 'static,
    T: Send + 'static,
{
    Builder::new().spawn(f).expect("failed to spawn thread")
}

pub fn sleep(dur: Duration) {
    if !sim::is_active() {
        return;
    }
    sim::point("thread.sleep");
    let deadline = sim::now_ns().saturating_add(u64::try_from(dur.as_nanos()).unwrap_or(u64::MAX));
    while sim::is_active() && sim::now_ns() < deadline {
        _ = sim::block(Reason::Sleep, Some(deadline));
    }
}

pub fn yield_now() {
    sim::point("thread.yield");
}
